from typing import List, Tuple
from strawberryfields.backends.base import ModeMap

def inv(m: List) -> bool:
    vals = [v for v in m if v is not None]
    return vals == list(range(len(vals)))

def check_delete(n: int, dels: List[int], mode: int) -> bool:
    """
    pre: 1 <= n <= 4
    pre: len(dels) <= 3
    pre: all(0 <= d < n for d in dels)
    pre: 0 <= mode < n
    post: _
    """
    mm = ModeMap(n)
    for d in dels:
        try:
            mm.delete([d])
        except ValueError:
            pass
    before = list(mm._map)
    try:
        mm.delete([mode])
    except ValueError:
        return True
    after = mm._map
    if not inv(after):
        return False
    # survivors keep relative order, deleted -> None
    return after[mode] is None

def check_delete_bad(n: int, dels: List[int], mode: int) -> bool:
    """
    pre: 1 <= n <= 4
    pre: len(dels) <= 3
    pre: all(0 <= d < n for d in dels)
    pre: 0 <= mode < n
    post: _
    """
    mm = ModeMap(n)
    for d in dels:
        try:
            mm.delete([d])
        except ValueError:
            pass
    try:
        mm.delete([mode])
    except ValueError:
        return True
    return False  # reachability twin: must be refuted
