from typing import List, Tuple
import strawberryfields.program_utils as pu
from strawberryfields.program_utils import Command, RegRef

class Op:
    ns = 1
    def __init__(self, deps=()):
        self.measurement_deps = set(deps)

_r=[RegRef(0),RegRef(1)]
_w=[Command(Op(),[_r[0]]),Command(Op(),[_r[0],_r[1]])]
pu.DAG_to_list(pu.list_to_DAG(_w))
pu.group_operations(_w, lambda op: True)

def check_roundtrip(cmds: List[Tuple[int, int]]) -> bool:
    """
    pre: 1 <= len(cmds) <= 3
    pre: all(0 <= a < 3 and 0 <= b < 3 for a, b in cmds)
    post: _
    """
    regs = [RegRef(i) for i in range(3)]
    seq = []
    for a, b in cmds:
        if a == b:
            seq.append(Command(Op(), [regs[a]]))
        else:
            seq.append(Command(Op(), [regs[a], regs[b]]))
    out = pu.DAG_to_list(pu.list_to_DAG(seq))
    if len(out) != len(seq) or set(map(id, out)) != set(map(id, seq)):
        return False
    pos = {id(c): i for i, c in enumerate(out)}
    for i in range(len(seq)):
        for j in range(i + 1, len(seq)):
            if set(r.ind for r in seq[i].reg) & set(r.ind for r in seq[j].reg):
                if pos[id(seq[i])] > pos[id(seq[j])]:
                    return False
    return True
