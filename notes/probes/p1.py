import numpy as np, strawberryfields as sf
from strawberryfields import ops
np.set_printoptions(precision=4, suppress=True, linewidth=200)
def run(backend, build, n=2, **opts):
    prog = sf.Program(n)
    with prog.context as q:
        build(q)
    eng = sf.Engine(backend, backend_options=opts)
    return eng.run(prog).state
# 1 thermal loss
def b1(q):
    ops.Sgate(0.3)|q[0]; ops.Dgate(0.2)|q[1]; ops.ThermalLossChannel(0.5, 0.7)|q[1]
sg=run('gaussian', b1); sb=run('bosonic', b1)
print('thermal_loss gaussian cov\n', sg.cov()); print('bosonic cov\n', sb.covs()[0].real if hasattr(sb,'covs') else None)
# 2 BS on (1,0) fock pure vs gaussian
def b2(q):
    ops.Dgate(0.3)|q[0]; ops.Sgate(0.2)|q[1]; ops.BSgate(0.4,0.3)|(q[1],q[0])
sg=run('gaussian', b2); sf_=run('fock', b2, cutoff_dim=12); sfm=run('fock', b2, cutoff_dim=12, pure=False)
print('BS(1,0) means gaussian', [sg.quad_expectation(i) for i in range(2)])
print('fock pure', [sf_.quad_expectation(i) for i in range(2)])
print('fock mixed', [sfm.quad_expectation(i) for i in range(2)])
# S2 on (1,0)
def b2b(q):
    ops.Dgate(0.3)|q[0]; ops.S2gate(0.2,0.3)|(q[1],q[0])
sg=run('gaussian', b2b); sf_=run('fock', b2b, cutoff_dim=12); sfm=run('fock', b2b, cutoff_dim=12, pure=False)
print('S2(1,0) gaussian', [sg.quad_expectation(i) for i in range(2)], sg.mean_photon(0), sg.mean_photon(1))
print('fock pure', [sf_.quad_expectation(i) for i in range(2)], sf_.mean_photon(0), sf_.mean_photon(1))
print('fock mixed', [sfm.quad_expectation(i) for i in range(2)], sfm.mean_photon(0), sfm.mean_photon(1))
# 3 heterodyne select
def b3(q):
    ops.S2gate(0.5)|(q[0],q[1]); ops.MeasureHeterodyne(select=0.3+0.2j)|q[0]
sg=run('gaussian', b3); sb=run('bosonic', b3)
print('het gaussian means', sg.means(), '\nbosonic means', sb.means()[0].real)
# 4 MZgate(0,x)
def b4(q):
    ops.Dgate(0.3)|q[0]; ops.MZgate(0.0, 0.4)|(q[0],q[1])
def b4d(q):
    ops.Dgate(0.3)|q[0]; ops.Rgate(0.4)|q[0]; ops.BSgate(np.pi/4,np.pi/2)|(q[0],q[1]); ops.Rgate(0.0)|q[0]; ops.BSgate(np.pi/4,np.pi/2)|(q[0],q[1])
sf_=run('fock', b4, cutoff_dim=10); sg=run('gaussian', b4d)
print('MZ(0,.4) fock', [sf_.quad_expectation(i) for i in range(2)], 'decomposed gaussian', [sg.quad_expectation(i) for i in range(2)])
