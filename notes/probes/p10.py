import z3, time
a,b,c,d,rho,q,cp,sp = z3.Reals('a b c d rho q cp sp')
# r = (a+ib)/(c+id)
den = c*c+d*d
rr = (a*c+b*d)/den; ri = (b*c-a*d)/den
ax = [den != 0, z3.Or(a != 0, b != 0), rho >= 0, rho*rho == rr*rr+ri*ri, cp*rho == rr, sp*rho == ri, q > 0, q*q == 1 + rho*rho]
ct, st = 1/q, rho/q
# (U Ti)[m,n] = U1 * e^{-i phi} * cos - U2 * sin
re = (a*cp + b*sp)*ct - c*st
im = (b*cp - a*sp)*ct - d*st
for name, g in (('re', re), ('im', im)):
    s = z3.Solver(); s.set('timeout', 60000); s.add(*ax); s.add(g != 0)
    t=time.time(); r = s.check(); print(name, r, '%.2fs'%(time.time()-t))
# vacuity: assumptions sat, and wrong goal sat
s = z3.Solver(); s.add(*ax); print('assumptions', s.check())
s = z3.Solver(); s.set('timeout', 60000); s.add(*ax); s.add(re + 1 != 0); t=time.time(); print('twin', s.check(), '%.2fs'%(time.time()-t))
