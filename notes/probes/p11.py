import os
os.environ['NUMBA_DISABLE_JIT']='1'
import types, time, itertools
import numpy as np, z3
import symproto
from symproto import *
import thewalrus.fock_gradients as fg

# extend prototype: exp of real -> positive atom keyed by sexpr; tanh
def _exp(self):
    key = 'exp_' + self.e.sexpr()
    if key not in symproto._atoms:
        E = z3.Real('E%d' % len(symproto._atoms)); AXIOMS.append(E > 0); symproto._atoms[key] = E
    return R(symproto._atoms[key])
R.exp = _exp
R.tanh = lambda self: self.sinh() / self.cosh()
def isq(k):
    k = int(round(k.real if isinstance(k, complex) else k))
    r = int(round(k ** 0.5))
    return R(r) if r * r == k else R(k).sqrt()
class P(types.ModuleType):
    def __getattr__(self, n): return getattr(np, n)
    def zeros(self, shape, dtype=None):
        a = np.empty(shape, dtype=object); a.fill(0); return a
    def sqrt(self, x, **kw):
        if isinstance(x, np.ndarray) and x.dtype != object:
            out = np.empty(x.shape, dtype=object)
            for i, v in np.ndenumerate(x): out[i] = isq(v)
            return out
        return np.sqrt(x)
    def cos(self, x, dtype=None): return np.cos(x)
    def sin(self, x, dtype=None): return np.sin(x)
    def cosh(self, x, dtype=None): return np.cosh(x)
    def sinh(self, x, dtype=None): return np.sinh(x)
fg.np = P('p')
D = 3
r = R.hyper('r'); phi = R.angle('ph')
t = time.time()
S = fg.squeezing(r, phi, D)
print('squeezing built %.2fs' % (time.time() - t), S.shape)
ch, sh = r.cosh(), r.sinh(); ph = C(phi.cos(), phi.sin())
# a S = S (a ch - a^dag e^{i phi} sh), window m<D-1, n<D-1
def sq(k): return isq(k)
bad = 0; nq = 0
extra = [z3.Real('ch_r') >= 1]
for m in range(D - 1):
    for n in range(D - 1):
        lhs = sq(m + 1) * S[m + 1, n]
        rhs = (sq(n) * S[m, n - 1] * ch if n >= 1 else 0) - sq(n + 1) * S[m, n + 1] * ph * sh
        res, _ = prove_eq(lhs, rhs); nq += 1
        if res != 'unsat': bad += 1; print('squeeze window', m, n, res)
print('squeezing intertwining', nq, 'queries', bad, 'not unsat', '%.2fs' % (time.time() - t))
# displacement: a D = D (a + alpha)
rr = R(z3.Real('rd'))
t = time.time()
Dm = fg.displacement(rr, phi, D)
alpha = ph * rr
bad = 0; nq = 0
for m in range(D - 1):
    for n in range(D):
        lhs = sq(m + 1) * Dm[m + 1, n]
        rhs = (sq(n) * Dm[m, n - 1] if n >= 1 else 0) + alpha * Dm[m, n]
        res, _ = prove_eq(lhs, rhs); nq += 1
        if res != 'unsat': bad += 1; print('disp window', m, n, res)
print('displacement intertwining', nq, 'queries', bad, 'not unsat', '%.2fs' % (time.time() - t))
# beamsplitter D=2 single-photon block
th = R.angle('th')
t = time.time()
Z = fg.beamsplitter(th, phi, 2)
print('BS <10|B|10> =', Z[1, 0, 1, 0], ' <01|B|10> =', Z[0, 1, 1, 0], '%.2fs' % (time.time() - t))
