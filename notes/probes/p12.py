import numpy as np
from fractions import Fraction as F
a = np.empty((2,4,4), dtype=object); a.fill(F(1,3))
X = np.empty((4,4), dtype=object); X.fill(F(2))
r = X @ a @ X.T
print('3-D object matmul', r.shape, r.dtype, r[0,0,0])
m = np.empty((2,4), dtype=object); m.fill(F(1,2))
print('update_means', (X @ m.T).T.shape)
print('einsum ...j,...jk,...k', np.einsum("...j,...jk,...k", m, a, m))
print('fancy idx', a[:, [0,2], :][:, :, [0,2]].shape, a[np.ix_(np.arange(2), [0,1],[0,1])].shape)
from scipy.linalg import block_diag
print('block_diag', block_diag(a[0], a[1]).dtype)
print('np.block', np.block([[X, X],[X, X]]).dtype, np.hstack([m[0], m[1]]).dtype)
print('np.prod/power', np.prod(np.power(m[0], np.array([1,2,0,1]))))
print('np.mean', np.mean([m[0], m[1]], axis=0))
print('np.sum', np.sum(m), 'any', np.any(m.astype(bool)))
print('diag sqrt', np.diag(m[0]).dtype)
