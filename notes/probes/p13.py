# math sanity of the C20 per-sample Stochastic gradient identity on the REAL code (sympy stands in for the engine; exact rational spot checks)
import types, time, sys, random, numpy as np, sympy as sp
import strawberryfields as sf
from strawberryfields.apps.train import param, cost, embed
def vec(f):
    def g(x, *a, **k):
        if isinstance(x, np.ndarray):
            out = np.empty(x.shape, dtype=object)
            for i, v in np.ndenumerate(x): out[i] = f(v)
            return out
        return f(x)
    return g
class LA:
    @staticmethod
    def det(a): return sp.Matrix(a.tolist()).det(method='berkowitz')
    @staticmethod
    def inv(a): return np.array(sp.Matrix(a.tolist()).inv(method='ADJ').tolist(), dtype=object)
class P(types.ModuleType):
    def __getattr__(self, n): return getattr(np, n)
    exp = staticmethod(vec(sp.exp)); sqrt = staticmethod(vec(sp.sqrt)); log = staticmethod(vec(sp.log))
    conj = staticmethod(lambda x: x); real = staticmethod(lambda x: x)
    linalg = LA
    @staticmethod
    def eye(n): return np.array(sp.eye(n).tolist(), dtype=object)
    identity = eye
    @staticmethod
    def zeros_like(a):
        z = np.empty(a.shape, dtype=object); z.fill(sp.Integer(0)); return z
    @staticmethod
    def zeros(n):
        z = np.empty(n, dtype=object); z.fill(sp.Integer(0)); return z
px = P('p'); param.np = px; cost.np = px; embed.np = px
for N in (1, 2):
    t0 = time.time()
    asym = sp.symbols('a0:%d' % (N * (N + 1) // 2), real=True); ths = sp.symbols('t0:%d' % N, real=True)
    A0 = np.empty((N, N), dtype=object); k = 0
    for i in range(N):
        for j in range(i, N):
            A0[i, j] = A0[j, i] = asym[k]; k += 1
    vg = param.VGBS.__new__(param.VGBS)
    vg.A_init = A0; vg.embedding = embed.ExpFeatures(np.array(sp.eye(N).tolist(), dtype=object)); vg.threshold = False; vg.n_modes = N; vg.A_init_samples = None
    theta = np.array(ths, dtype=object)
    cov = param.A_to_cov(vg.A(theta)); hb = sf.hbar
    nbar = np.array([(cov[k, k] + cov[k + N, k + N]) / (2 * hb) - sp.Rational(1, 2) for k in range(N)], dtype=object)
    vg.mean_photons_by_mode = lambda p: nbar          # stand-in for thewalrus photon_number_mean_vector (same formula)
    st = cost.Stochastic(lambda s: sp.Symbol('H'), vg)
    print('N', N, 'setup %.1fs' % (time.time() - t0)); sys.stdout.flush()
    for sample in ([0] * N, [2] + [1] * (N - 1), [1] * N):
        s = np.array(sample)
        h = st.h_reparametrized(s, theta); g = st._gradient_one_sample(s, theta)
        res = []
        for j, th in enumerate(ths):
            d = sp.diff(h, th) - g[j]
            vals = []
            for trial in range(3):
                sub = {x: sp.Rational(random.randint(1, 9), 40) for x in asym}
                sub.update({x: sp.log(sp.Rational(random.randint(2, 9), random.randint(10, 20))) * -1 for x in ths})
                sub[sp.Symbol('H')] = sp.Rational(7, 3)
                vals.append(sp.simplify(d.subs(sub)))
            res.append(vals)
        print('  sample', sample, 'residuals', res, '%.1fs' % (time.time() - t0)); sys.stdout.flush()
