import sympy as sp, z3, time
a0,a1,a2,u1,u2,H,q = sp.symbols('a0 a1 a2 u1 u2 H q', real=True)
A0 = sp.Matrix([[a0,a1],[a1,a2]]); W = sp.diag(u1,u2); A = W*A0*W
def O(A): return sp.Matrix(sp.BlockMatrix([[sp.zeros(2), A],[A, sp.zeros(2)]]))
I4 = sp.eye(4)
D = (I4 - O(A)).det(method='berkowitz'); D0 = (I4 - O(A0)).det(method='berkowitz')
X = (I4 - O(A)).inv(method='ADJ')
n = [ (X[k,k] + X[k+2,k+2])/2 - 1 for k in range(2)]
s = (2,1)
mono = u1**(2*s[0]) * u2**(2*s[1])
h = H*q*mono
us = (u1,u2)
zs = {str(v): z3.Real(str(v)) for v in (a0,a1,a2,u1,u2,H,q)}
def toz3(e):
    return eval(sp.srepr(e), {'Symbol': lambda n, **k: zs[n], 'Integer': lambda v: z3.RealVal(v), 'Rational': lambda p,q_: z3.RealVal(p)/z3.RealVal(q_),
        'Add': lambda *a: sum(a[1:], a[0]), 'Mul': lambda *a: __import__('functools').reduce(lambda x,y: x*y, a), 'Pow': lambda b,e: (b**e if not z3.is_rational_value(e) or True else None), 'Half': z3.RealVal(1)/2, 'One': z3.RealVal(1), 'NegativeOne': z3.RealVal(-1), 'Zero': z3.RealVal(0)})
for j in range(2):
    dq = sp.diff(D, us[j])/(2*q*D0)
    lhs = -(us[j]/2)*(H*mono*dq + H*q*sp.diff(mono, us[j]))
    rhs = -h*(s[j] - n[j])
    # clear denominators by hand (what the engine's (num,den) representation does)
    num, den = sp.fraction(sp.together(lhs - rhs))
    t=time.time()
    sol = z3.Solver(); sol.set('timeout', 120000)
    zD, zD0, zq = toz3(D), toz3(D0), zs['q']
    sol.add(zq*zq*zD0 == zD, zq > 0, zD0 > 0, zD > 0, zs['u1'] > 0, zs['u2'] > 0)
    sol.add(toz3(num) != 0)
    print('j', j, 'terms in numerator', len(sp.expand(num).args), sol.check(), '%.2fs' % (time.time()-t))
