import numpy as np, warnings
warnings.filterwarnings('ignore')
import strawberryfields as sf
from strawberryfields import ops
np.set_printoptions(precision=4, suppress=True, linewidth=200)
def run(backend, prog, **opts):
    eng = sf.Engine(backend, backend_options=opts); return eng.run(prog), eng
# 1 optimize with measured parameter
prog = sf.Program(2)
with prog.context as q:
    ops.Sgate(0.5) | q[0]
    ops.MeasureX | q[0]
    ops.Rgate(q[0].par) | q[1]
    ops.Rgate(q[0].par) | q[1]
opt = prog.optimize()
print('1 optimize measured-par: original len', len(prog), 'optimized:'); opt.print()
# 2 Gaussian state after deletion
prog = sf.Program(3)
with prog.context as q:
    ops.Dgate(0.1) | q[0]; ops.Dgate(0.2) | q[1]; ops.Dgate(0.3) | q[2]
    ops.Del | q[0]
for be, o in (('gaussian', {}), ('bosonic', {}), ('fock', {'cutoff_dim': 5})):
    try:
        r, e = run(be, prog, **o); st = r.state
        print('2', be, 'modes', e.backend.get_modes(), 'names', st.mode_names, 'x:', [round(float(st.quad_expectation(i)[0]), 3) for i in range(st.num_modes)], '(expect 0.4, 0.6)')
    except Exception as ex: print('2', be, 'ERR', type(ex).__name__, ex)
# 3 bosonic New(2)
prog = sf.Program(1)
with prog.context as q:
    a, b = ops.New(2)
    ops.Dgate(0.2) | b
try:
    r, e = run('bosonic', prog); print('3 bosonic New(2): active', e.backend.circuit.active, 'nlen', e.backend.circuit.nlen)
except Exception as ex: print('3 bosonic New(2) ERR', type(ex).__name__, ex)
try:
    r, e = run('gaussian', prog); print('3 gaussian New(2): modes', e.backend.get_modes(), [round(float(r.state.quad_expectation(i)[0]),3) for i in range(3)])
except Exception as ex: print('3 gaussian ERR', type(ex).__name__, ex)
# 4 gaussian_unitary with modes {1,8} of 10 and dagger
prog = sf.Program(10)
with prog.context as q:
    ops.Sgate(0.4) | q[8]
    ops.Dgate(0.3) | q[1]
c = prog.compile(compiler='gaussian_unitary')
print('4 compiled gaussian_unitary on modes {1,8}:'); c.print()
r1, _ = run('gaussian', prog); r2, _ = run('gaussian', c)
print('   mean photon src (1,8):', r1.state.mean_photon(1)[0].round(4), r1.state.mean_photon(8)[0].round(4), ' compiled:', r2.state.mean_photon(1)[0].round(4), r2.state.mean_photon(8)[0].round(4))
prog = sf.Program(1)
with prog.context as q:
    ops.Rgate(0.4).H | q[0]
    ops.Dgate(0.3) | q[0]
c = prog.compile(compiler='gaussian_unitary'); r1, _ = run('gaussian', prog); r2, _ = run('gaussian', c)
print('4b dagger: src means', r1.state.means(), 'compiled', r2.state.means())
# 5 Program.__eq__ prefix / dagger
p1 = sf.Program(1); p2 = sf.Program(1); p3 = sf.Program(1)
with p1.context as q: ops.Rgate(0.3) | q[0]
with p2.context as q: ops.Rgate(0.3) | q[0]; ops.Sgate(0.5) | q[0]
with p3.context as q: ops.Rgate(0.3).H | q[0]
print('5 prefix ==', p1 == p2, ' dagger ==', p1 == p3, ' equivalence dagger', p1.equivalence(p3))
# 6 Fourier merge, MS merge
prog = sf.Program(1)
with prog.context as q:
    ops.Dgate(0.3) | q[0]; ops.Fourier | q[0]; ops.Fourier | q[0]
o = prog.compile(compiler='gaussian', optimize=True)
r1, _ = run('gaussian', prog); r2, _ = run('gaussian', o)
print('6 Fourier^2: src means', r1.state.means(), 'optimized', r2.state.means(), 'len', len(o))
# 7 shrink weight
import networkx as nx
from strawberryfields.apps import clique
g = nx.Graph([(0,1),(1,2),(2,3),(3,4),(0,2),(1,3)])
np.random.seed(0)
try:
    print('7 shrink weight', clique.shrink([0,1,2,3,4], g, node_select=[5,4,3,2,1]), 'uniform', clique.shrink([0,1,2,3,4], g))
except Exception as ex: print('7 ERR', type(ex).__name__, ex)
# 8 io dagger
print('8 blackbird of Rgate(0.3).H:'); print(sf.io.to_blackbird(p3).serialize().strip().splitlines()[-1])
