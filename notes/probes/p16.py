import os
os.environ['NUMBA_DISABLE_JIT'] = '1'
import types, time, sys, numpy as np, sympy as sp
import strawberryfields as sf
from strawberryfields.apps.train import param, cost, embed
import thewalrus.quantum.fock_tensors as ft, thewalrus.quantum.conversions as cv, thewalrus.quantum.gaussian_checks as gchk, thewalrus._hafnian as hf
def vec(f):
    def g(x, *a, **k):
        if isinstance(x, np.ndarray):
            out = np.empty(x.shape, dtype=object)
            for i, v in np.ndenumerate(x): out[i] = f(v)
            return out
        return f(x)
    return g
class LA:
    det = staticmethod(lambda a: sp.Matrix(a.tolist()).det(method='berkowitz'))
    inv = staticmethod(lambda a: np.array(sp.Matrix(a.tolist()).inv(method='ADJ').tolist(), dtype=object))
    norm = staticmethod(lambda a: sp.sqrt(sum(sp.Abs(x)**2 for x in np.ravel(a))))
class P(types.ModuleType):
    def __getattr__(self, n): return getattr(np, n)
    exp = staticmethod(vec(sp.exp)); sqrt = staticmethod(vec(sp.sqrt)); log = staticmethod(vec(sp.log)); abs = staticmethod(vec(sp.Abs))
    conj = staticmethod(vec(sp.conjugate)); real = staticmethod(vec(sp.re))
    linalg = LA
    eye = staticmethod(lambda n, **k: np.array(sp.eye(n).tolist(), dtype=object)); identity = eye
    @staticmethod
    def zeros_like(a, **k):
        z = np.empty(np.shape(a), dtype=object); z.fill(sp.Integer(0)); return z
    @staticmethod
    def zeros(n, **k):
        z = np.empty(n, dtype=object); z.fill(sp.Integer(0)); return z
    allclose = staticmethod(lambda a, b, **k: True)   # probe only: skip tolerance checks
px = P('p')
for m in (param, cost, embed, ft, cv, gchk, hf): m.np = px
ft.is_pure_cov = lambda *a_, **k_: True
a, t = sp.symbols('a t', positive=True)
vg = param.VGBS.__new__(param.VGBS)
vg.A_init = np.array([[a]], dtype=object); vg.embedding = embed.ExpFeatures(np.array([[1]], dtype=object)); vg.threshold = False; vg.n_modes = 1; vg.A_init_samples = None
theta = np.array([t], dtype=object)
for n in (0, 2, 4):
    t0 = time.time()
    try:
        P_n = vg.prob_sample(theta, np.array([n]))
        w = sp.exp(-t); aw = a * w
        closed = {0: sp.sqrt(1 - aw**2), 2: sp.sqrt(1 - aw**2) * aw**2 / 2, 4: sp.sqrt(1 - aw**2) * 3 * aw**4 / 8}[n]
        diff = sp.simplify((P_n - closed).subs({a: sp.Rational(1, 3), t: sp.log(2)}))
        print('prob_sample n=%d via thewalrus ran; minus closed form at a=1/3,w=1/2 ->' % n, diff, '%.1fs' % (time.time() - t0))
    except Exception as e:
        import traceback; traceback.print_exc(limit=3); print('n', n, 'FAILED', type(e).__name__, str(e)[:120])
    sys.stdout.flush()
