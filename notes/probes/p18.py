import z3, time
# 2x2 unitary V with entries v_ij = x_ij + i y_ij ; rectangular(): nullTi(1,0,V): r = V[1,0]/V[1,1]; theta=arctan|r|, phi=angle(r); localV = V @ Ti(0,1,theta,phi)
x00,y00,x01,y01,x10,y10,x11,y11,rho,q,cp,sp = z3.Reals('x00 y00 x01 y01 x10 y10 x11 y11 rho q cp sp')
def cm(a,b): return (a[0]*b[0]-a[1]*b[1], a[0]*b[1]+a[1]*b[0])
def cadd(a,b): return (a[0]+b[0], a[1]+b[1])
def conj(a): return (a[0], -a[1])
V = [[(x00,y00),(x01,y01)],[(x10,y10),(x11,y11)]]
unit = []
for i in range(2):
    for j in range(2):
        e = cadd(cm(V[i][0], conj(V[j][0])), cm(V[i][1], conj(V[j][1])))
        unit += [e[0] == (1 if i==j else 0), e[1] == 0]
a,b = x10,y10; c,d = x11,y11
den = c*c+d*d
rr = (a*c+b*d); ri = (b*c-a*d)          # r*den
ax = unit + [z3.Or(a!=0,b!=0), den != 0, rho >= 0, rho*rho*den*den == rr*rr+ri*ri, cp*rho*den == rr, sp*rho*den == ri, q > 0, q*q == 1+rho*rho]
ct, st = 1/q, rho/q
# Ti(0,1,theta,phi) = T(0,1,theta,-phi)^T : T[m,m]=e^{i phi'}cos, T[m,n]=-sin, T[n,m]=e^{i phi'} sin, T[n,n]=cos with phi'=-phi ; transpose
em = (cp, -sp)   # e^{-i phi}
Ti = [[cm(em,(ct,0)), cm(em,(st,0))],[(-st,0),(ct,0)]]
L = [[cadd(cm(V[i][0],Ti[0][j]), cm(V[i][1],Ti[1][j])) for j in range(2)] for i in range(2)]
goals = {'L10 re': L[1][0][0]==0, 'L10 im': L[1][0][1]==0, 'L01 re': L[0][1][0]==0, 'L01 im': L[0][1][1]==0,
         '|L00|=1': L[0][0][0]*L[0][0][0]+L[0][0][1]*L[0][0][1]==1, '|L11|=1': L[1][1][0]*L[1][1][0]+L[1][1][1]*L[1][1][1]==1}
for name,g in goals.items():
    s = z3.Solver(); s.set('timeout', 120000); s.add(*ax); s.add(z3.Not(g))
    t=time.time(); r=s.check(); print(name, r, '%.2fs'%(time.time()-t), flush=True)
