import z3, time
cg,sg,ca,sa,cb,sb,ct_,st_,rho,q,cp,sp = z3.Reals('cg sg ca sa cb sb cth sth rho q cp sp')
def cm(a,b): return (a[0]*b[0]-a[1]*b[1], a[0]*b[1]+a[1]*b[0])
def cadd(a,b): return (a[0]+b[0], a[1]+b[1])
def conj(a): return (a[0], -a[1])
def sc(a,k): return (a[0]*k, a[1]*k)
eg,ea,eb = (cg,sg),(ca,sa),(cb,sb)
V = [[sc(cm(eg,ea),ct_), sc(cm(eg,conj(eb)),-st_)],[sc(cm(eg,eb),st_), sc(cm(eg,conj(ea)),ct_)]]
trig = [cg*cg+sg*sg==1, ca*ca+sa*sa==1, cb*cb+sb*sb==1, ct_*ct_+st_*st_==1]
(a,b),(c,d) = V[1][0], V[1][1]
den = c*c+d*d
rr = (a*c+b*d); ri = (b*c-a*d)
ax = trig + [z3.Or(a!=0,b!=0), den != 0, rho >= 0, rho*rho*den*den == rr*rr+ri*ri, cp*rho*den == rr, sp*rho*den == ri, q > 0, q*q == 1+rho*rho]
ct, st = 1/q, rho/q
em = (cp, -sp)
Ti = [[cm(em,(ct,0)), cm(em,(st,0))],[(-st,0),(ct,0)]]
L = [[cadd(cm(V[i][0],Ti[0][j]), cm(V[i][1],Ti[1][j])) for j in range(2)] for i in range(2)]
goals = {'L10 re': L[1][0][0]==0, 'L10 im': L[1][0][1]==0, 'L01 re': L[0][1][0]==0, 'L01 im': L[0][1][1]==0,
         '|L00|=1': L[0][0][0]*L[0][0][0]+L[0][0][1]*L[0][0][1]==1, '|L11|=1': L[1][1][0]*L[1][1][0]+L[1][1][1]*L[1][1][1]==1}
for name,g in goals.items():
    s = z3.Solver(); s.set('timeout', 60000); s.add(*ax); s.add(z3.Not(g))
    t=time.time(); r=s.check(); print(name, r, '%.2fs'%(time.time()-t), flush=True)
