import time, sys
import numpy as np, z3
from symproto import *
import strawberryfields.backends.gaussianbackend.gaussiancircuit as gc

n = 3
def herm_state(n):
    N = np.empty((n, n), dtype=object); M = np.empty((n, n), dtype=object); a = np.empty(n, dtype=object)
    for i in range(n):
        a[i] = C(z3.Real(f"ar{i}"), z3.Real(f"ai{i}"))
        for j in range(n):
            if i == j:
                N[i, j] = C(z3.Real(f"Nr{i}{j}"), 0)
            elif i < j:
                N[i, j] = C(z3.Real(f"Nr{i}{j}"), z3.Real(f"Ni{i}{j}")); N[j, i] = N[i, j].conjugate()
            if i <= j:
                M[i, j] = C(z3.Real(f"Mr{i}{j}"), z3.Real(f"Mi{i}{j}")); M[j, i] = M[i, j]
    return N, M, a

def mk(n):
    g = gc.GaussianModes.__new__(gc.GaussianModes)
    g.hbar = 2; g.nlen = n; g.active = list(range(n))
    g.nmat, g.mmat, g.mean = herm_state(n)
    return g

theta = R.angle("th"); phi = R.angle("ph")
for (k, l) in [(0, 1), (2, 0), (1, 2)]:
    g = mk(n)
    N0, M0, a0 = g.nmat.copy(), g.mmat.copy(), g.mean.copy()
    t0 = time.time()
    g.beamsplitter(theta, phi, k, l)
    t1 = time.time()
    # reference
    ch, sh = theta.cos(), theta.sin(); ph = (1j * phi).exp() if False else C(phi.cos(), phi.sin())
    U = np.empty((n, n), dtype=object)
    for i in range(n):
        for j in range(n):
            U[i, j] = C(1 if i == j else 0, 0)
    U[k, k] = C(ch, 0); U[k, l] = ph * ch.__class__(sh.e); U[l, k] = -(ph.conjugate()) * sh; U[l, l] = C(ch, 0)
    Uc = np.vectorize(lambda z: z.conjugate(), otypes=[object])(U)
    aref = U.dot(a0); Nref = Uc.dot(N0).dot(U.T); Mref = U.dot(M0).dot(U.T)
    nq = 0; res = {}
    t2 = time.time()
    for i in range(n):
        r, m = prove_eq(g.mean[i], aref[i]); res[r] = res.get(r, 0) + 1; nq += 1
        for j in range(n):
            r, m = prove_eq(g.nmat[i, j], Nref[i, j]); res[r] = res.get(r, 0) + 1; nq += 1
            if r != 'unsat': print('N', i, j, r)
            r, m = prove_eq(g.mmat[i, j], Mref[i, j]); res[r] = res.get(r, 0) + 1; nq += 1
            if r != 'unsat': print('M', i, j, r)
    t3 = time.time()
    print((k, l), 'exec %.2fs' % (t1 - t0), 'queries', nq, res, 'solve %.2fs' % (t3 - t2))
