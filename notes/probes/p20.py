import z3, subprocess, time
exec(open('p18.py').read().split("for name,g in goals.items():")[0])
for name in ('L10 re', 'L01 im'):
    s = z3.Solver(); s.add(*ax); s.add(z3.Not(goals[name]))
    open('h.smt2','w').write('(set-logic QF_NRA)\n' + s.to_smt2())
    for cmd in (['cvc5','--tlimit=60000','h.smt2'], ['z3','-T:60','h.smt2']):
        t=time.time()
        try: out = subprocess.run(cmd, capture_output=True, text=True, timeout=90).stdout.strip().splitlines()[0:1]
        except Exception as e: out = [type(e).__name__]
        print(name, cmd[0], out, '%.1fs'%(time.time()-t), flush=True)
