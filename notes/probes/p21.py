import z3, time
exec(open('p18.py').read().split("for name,g in goals.items():")[0])
for mk, label in ((lambda: z3.SolverFor('QF_NRA'), 'SolverFor(QF_NRA)'), (lambda: z3.Tactic('qfnra-nlsat').solver(), 'qfnra-nlsat'), (lambda: z3.Tactic('qfnra').solver(), 'qfnra')):
    for name in ('L10 re', 'L01 re', 'L01 im', '|L00|=1'):
        s = mk(); s.set('timeout', 60000); s.add(*ax); s.add(z3.Not(goals[name]))
        t=time.time(); r=s.check(); print(label, name, r, '%.2fs'%(time.time()-t), flush=True)
