import time, sys
import numpy as np, z3
from symproto import *
import symproto
import strawberryfields.backends.gaussianbackend.gaussiancircuit as gc
exec(open('p2.py').read().split("theta = R.angle")[0].split("import strawberryfields")[1].split("\n",1)[1])
n=3
# thermal loss on mode 1: expected N'[i][j] unchanged for i,j != 1
g = mk(n); N0, M0, a0 = g.nmat.copy(), g.mmat.copy(), g.mean.copy()
T = R(z3.Real("T")); nb = R(z3.Real("nbar"))
extra=[T.e>=0, T.e<=1, nb.e>=0]
g.thermal_loss(T, nb, 1)
t=time.time()
for i in range(n):
    for j in range(n):
        if i!=1 and j!=1:
            r,m = prove_eq(g.nmat[i,j], N0[i,j], extra)
            print('thermal_loss spectator N',i,j,r, m if m is None else {str(d):m[d] for d in m.decls() if str(d) in ('T','nbar')})
r,m=prove_eq(g.nmat[1,1], T*N0[1,1] + (1-T)*nb, extra); print('N11',r)
r,m=prove_eq(g.nmat[0,1], T.sqrt()*N0[0,1], extra); print('N01',r)
print('time',time.time()-t)
# squeeze
g = mk(n); N0, M0, a0 = g.nmat.copy(), g.mmat.copy(), g.mean.copy()
r_=R.hyper("r"); phi=R.angle("ph")
g.squeeze(r_, phi, 2)
ch, sh = r_.cosh(), r_.sinh(); ph = C(phi.cos(), phi.sin())
# reference: a_k -> ch a_k - e^{i phi} sh a_k^dagger ; compute N'_kk = <a'^dag a'>
k=2
t=time.time()
ref_mean = ch*a0[k] - ph*sh*a0[k].conjugate()
print('mean', prove_eq(g.mean[k], ref_mean)[0])
# N'_kk = ch^2 Nkk + sh^2 (Nkk+1) - ch sh (e^{i phi} conj(Mkk) + e^{-i phi} Mkk)
ref = ch*ch*N0[k,k] + sh*sh*(N0[k,k]+1) - ch*sh*(ph*M0[k,k].conjugate() + ph.conjugate()*M0[k,k])
print('Nkk', prove_eq(g.nmat[k,k], ref)[0])
# M'_kk = ch^2 Mkk + e^{2i phi} sh^2 conj(Mkk) - e^{i phi} ch sh (2 Nkk + 1)
ref = ch*ch*M0[k,k] + ph*ph*sh*sh*M0[k,k].conjugate() - ph*ch*sh*(2*N0[k,k]+1)
print('Mkk', prove_eq(g.mmat[k,k], ref)[0])
for l in (0,1):
    # N'_kl = <a_k'^dag a_l> = ch N_kl - e^{-i phi} sh M_kl
    print('Nkl', prove_eq(g.nmat[k,l], ch*N0[k,l] - ph.conjugate()*sh*M0[k,l])[0], 'Mkl', prove_eq(g.mmat[k,l], ch*M0[k,l]-ph*sh*N0[k,l])[0],
      'Nlk', prove_eq(g.nmat[l,k], (ch*N0[k,l] - ph.conjugate()*sh*M0[k,l]).conjugate())[0])
print('spect', prove_eq(g.nmat[0,1], N0[0,1])[0])
# photon-number: purity/uncertainty: det-like: check N hermitian
print('time',time.time()-t)
