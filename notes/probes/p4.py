import z3, time, itertools
s, ch, c, sn = z3.Reals('s ch c sn')
sh = -s/2
ax = [ch*ch == 1 + s*s/4, ch >= 1, c*c + sn*sn == 1, c*c - sn*sn == -sh/ch, 2*c*sn == -1/ch, c >= 0]
# symplectic in xxpp ordering for 2 modes: BS(theta,0): real rotation on (a1,a2): a1' = c a1 - s a2 ; a2' = s a1 + c a2  (SF convention)
def mm(A,B): return [[sum(A[i][k]*B[k][j] for k in range(len(B))) for j in range(len(B[0]))] for i in range(len(A))]
def BS(ct, st):
    U=[[ct,-st],[st,ct]]
    Z=[[0,0],[0,0]]
    return [[U[0][0],U[0][1],0,0],[U[1][0],U[1][1],0,0],[0,0,U[0][0],U[0][1]],[0,0,U[1][0],U[1][1]]]
def SQ(e1, e2):
    # Sgate(r,0): x -> e^{-r} x, p -> e^{r} p ; e1=e^{-r} for mode1... pass diag
    return [[e1,0,0,0],[0,e2,0,0],[0,0,1/e1,0],[0,0,0,1/e2]]
em = ch - sh   # e^{-r}
ep = ch + sh   # e^{r}
S = mm(BS(-sn, c), mm(SQ(em, ep), BS(c, sn)))   # BS(theta+pi/2): cos=-sin th, sin=cos th
CX = [[1,0,0,0],[s,1,0,0],[0,0,1,-s],[0,0,0,1]]
t=time.time()
for i,j in itertools.product(range(4),range(4)):
    sol=z3.Solver(); sol.set('timeout',60000)
    sol.add(*ax); sol.add(S[i][j] != CX[i][j])
    r=sol.check()
    print(i,j,r, end='; ')
print('\n%.2fs'%(time.time()-t))
