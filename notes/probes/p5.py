import os
os.environ['NUMBA_DISABLE_JIT']='1'
import time, types, itertools
import numpy as np, z3
from symproto import *
import strawberryfields.backends.fockbackend.circuit as fc
import strawberryfields.backends.fockbackend.ops as fops

class NPProxy(types.ModuleType):
    def __init__(self):
        super().__init__('npshim')
    def __getattr__(self, name):
        return getattr(np, name)
    def zeros(self, shape, dtype=None):
        a = np.empty(shape, dtype=object); a.fill(0); return a
    def zeros_like(self, x, dtype=None):
        a = np.empty(x.shape, dtype=object); a.fill(0); return a
shim = NPProxy()
fc.np = shim; fops.np = shim

def sym_tensor(name, shape):
    a = np.empty(shape, dtype=object)
    for idx in itertools.product(*[range(s) for s in shape]):
        tag = name + ''.join(map(str, idx))
        a[idx] = C(z3.Real(tag+'r'), z3.Real(tag+'i'))
    return a
def conjarr(a):
    return np.vectorize(lambda z: toC(z).conjugate(), otypes=[object])(a)
np_conj_orig = np.conj

D=2; n=3
# symbolic BS-like matrix with selection rule i+j=k+l  (mat[i,k,j,l] per SF convention after transpose)
mat = np.empty((D,)*4, dtype=object); mat.fill(0)
for i,k,j,l in itertools.product(range(D), repeat=4):
    if i + j == k + l:
        mat[i,k,j,l] = C(z3.Real(f'B{i}{k}{j}{l}r'), z3.Real(f'B{i}{k}{j}{l}i'))
res = {}
t0=time.time()
for pure in (True, False):
  for modes in [(0,1),(1,0),(0,2),(2,1),(2,0)]:
    circ = fc.Circuit.__new__(fc.Circuit)
    circ._num_modes=n; circ._trunc=D; circ._pure=pure; circ._hbar=2; circ._checks=False
    if pure:
        st = sym_tensor('s', (D,)*n)
    else:
        st = sym_tensor('r', (D,)*(2*n))
    circ._state = st.copy()
    out = circ.apply_twomode_gate(mat, list(modes), gate="BSgate")
    # reference: out[..a..b..] = sum_{k,l} mat[a,k,b,l] st[..k..l..]  with a at modes[0], b at modes[1]
    bad = 0; nq=0
    if pure:
        for idx in itertools.product(range(D), repeat=n):
            ref = 0
            for k,l in itertools.product(range(D), repeat=2):
                src = list(idx); src[modes[0]]=k; src[modes[1]]=l
                ref = ref + mat[idx[modes[0]],k,idx[modes[1]],l]*st[tuple(src)]
            r,_ = prove_eq(out[idx], ref); nq+=1
            if r!='unsat': bad+=1
    else:
        for idx in itertools.product(range(D), repeat=2*n):
            ref = 0
            a,ap = idx[2*modes[0]], idx[2*modes[0]+1]; b,bp = idx[2*modes[1]], idx[2*modes[1]+1]
            for k,l,kp,lp in itertools.product(range(D), repeat=4):
                m1 = mat[a,k,b,l]; m2 = mat[ap,kp,bp,lp]
                if (isinstance(m1,int) and m1==0) or (isinstance(m2,int) and m2==0): continue
                src = list(idx); src[2*modes[0]]=k; src[2*modes[0]+1]=kp; src[2*modes[1]]=l; src[2*modes[1]+1]=lp
                ref = ref + m1*st[tuple(src)]*toC(m2).conjugate()
            r,_ = prove_eq(out[idx], ref); nq+=1
            if r!='unsat': bad+=1
    print('pure' if pure else 'mixed', modes, 'queries', nq, 'violations', bad, '%.1fs'%(time.time()-t0))
