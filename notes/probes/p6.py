import numpy as np
from fractions import Fraction
class X:
    def __init__(s,v): s.v=v
    def __mul__(s,o): return X(('*',s.v,getattr(o,'v',o)))
    __rmul__=__mul__
    def __add__(s,o): return X(('+',s.v,getattr(o,'v',o)))
    __radd__=__add__
    def conjugate(s): return X(('conj',s.v))
    @property
    def real(s): return X(('re',s.v))
    def cos(s): return X(('cos',s.v))
    def sqrt(s): return X(('sqrt',s.v))
    def __repr__(s): return 'X%r'%(s.v,)
a=np.empty((2,2),dtype=object)
for i in range(2):
    for j in range(2): a[i,j]=X(f'a{i}{j}')
for name,f in [('einsum ii', lambda: np.einsum('ii',a)), ('einsum ab,cd->abcd', lambda: np.einsum('a,b->ab',a[0],a[1].conj())),
  ('tensordot', lambda: np.tensordot(a,a,axes=0).shape), ('real', lambda: a.real), ('np.real', lambda: np.real(a)), ('conj', lambda: np.conj(a)[0,0]),
  ('cos', lambda: np.cos(a)[0,0]), ('cos scalar', lambda: np.cos(X('t'))), ('sqrt scalar', lambda: np.sqrt(X('t'))), ('dot', lambda: np.dot(a,a)[0,0]), ('matmul', lambda: (a@a)[0,0]),
  ('sum', lambda: sum([a,a])[0,0]), ('trace', lambda: np.trace(a)), ('diag', lambda: np.diag(a)), ('outer', lambda: np.outer(a[0],a[1])[0,0]), ('kron', lambda: np.kron(a,a).shape),
  ('exp 1j*x', lambda: np.exp(1j*X('t'))), ('abs', lambda: np.abs(X('t'))), ('angle', lambda: np.angle(X('t'))), ('arctan2', lambda: np.arctan2(X('a'),X('b'))),('concatenate', lambda: np.concatenate((a,a),axis=1).shape),
  ('allclose', lambda: np.allclose(a,a)), ('isclose', lambda: np.isclose(a,0.0)), ('linalg.inv', lambda: np.linalg.inv(a)), ('linalg.det', lambda: np.linalg.det(a)), ('mod', lambda: np.mod(X('a'), 2*np.pi)), ('where', lambda: np.where(np.array([True,False]), a[0], a[1])),
  ('block_diag', lambda: __import__('scipy.linalg').linalg.block_diag(a,a).dtype), ('copy', lambda: np.copy(a[0,0])), ('delete', lambda: np.delete(a,[0],axis=0).shape), ('imag of objarr', lambda: a.imag), ('round', lambda: np.round(a,14)), ('transpose', lambda: a.T[0,1]),('a.conj()', lambda: a.conj()[0,0]) ]:
    try:
        print(name,'->',repr(f())[:100])
    except Exception as e:
        print(name,'FAIL',type(e).__name__,str(e)[:100])
