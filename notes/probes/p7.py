import types, time
import numpy as np, z3
from symproto import *
import strawberryfields as sf
from strawberryfields import ops
import strawberryfields.backends.gaussianbackend.gaussiancircuit as gc
import strawberryfields.backends.gaussianbackend.backend as gb

def oz(shape, dtype=None):
    a = np.empty(shape, dtype=object); a.fill(0); return a
class NPProxy(types.ModuleType):
    def __getattr__(self, name): return getattr(np, name)
    zeros = staticmethod(oz)
    empty = staticmethod(oz)
    @staticmethod
    def identity(n, dtype=None):
        a = oz((n, n))
        for i in range(n): a[i, i] = 1
        return a
shim = NPProxy('npshim')
gc.np = shim
gb.empty = shim.empty
# xxpp_to_xpxp from thewalrus: check it works on object arrays
th, ph, r, x = R.angle('th'), R.angle('ph'), R.hyper('r'), R(z3.Real('x'))
prog = sf.Program(3)
with prog.context as q:
    ops.Sgate(r, ph) | q[2]
    ops.Xgate(x) | q[0]
    ops.BSgate(th, ph) | (q[2], q[0])
    ops.Rgate(th) | q[1]
eng = sf.Engine('gaussian')
t=time.time()
res = eng.run(prog)
st = res.state
print('ran in %.2fs'%(time.time()-t), type(st).__name__)
print('means', st.means()[:2])
c = eng.backend.circuit
print('mean[0]=', c.mean[0])
