import z3, time, subprocess, itertools
s, ch, c, sn = z3.Reals('s ch c sn')
sh = -s/2
ax = [ch*ch == 1 + s*s/4, ch >= 1, c*c + sn*sn == 1, c*c - sn*sn == -sh/ch, 2*c*sn == -1/ch, c >= 0]
sol=z3.Solver(); sol.add(*ax)
em = ch - sh
# one representative goal: entry (1,0) of S equals s  -> use simple polynomial identity: (ch-sh)*(ch+sh)==1
sol.add((ch-sh)*(ch+sh) != 1)
smt = "(set-logic QF_NRA)\n" + sol.to_smt2()
open('q.smt2','w').write(smt)
for cmd in (['z3','q.smt2'],['z3-new','q.smt2'],['cvc5','--tlimit=60000','q.smt2']):
    t=time.time()
    try:
        out=subprocess.run(cmd,capture_output=True,text=True,timeout=90).stdout.strip()
    except Exception as e:
        out=repr(e)
    print(cmd[0], out[:80], '%.2fs'%(time.time()-t))
import cvc5
from cvc5 import Kind
slv = cvc5.Solver(); slv.setOption('tlimit','60000'); slv.setLogic('QF_NRA')
t=time.time()
p = cvc5.InputParser(slv); p.setStringInput(cvc5.InputLanguage.SMT_LIB_2_6, smt, 'q'); sm = p.getSymbolManager()
while True:
    cmd = p.nextCommand()
    if cmd.isNull(): break
    r = cmd.invoke(slv, sm)
    if str(r).strip(): print('cvc5-wheel', str(r).strip(), '%.2fs'%(time.time()-t))
