import numpy as np, sympy
import strawberryfields as sf
from strawberryfields import ops
from strawberryfields.parameters import par_evaluate, FreeParameter
class X:
    def __init__(s,v): s.v=v
    def _b(s,op,o): return X((op,s.v,getattr(o,'v',o)))
    def __mul__(s,o): return s._b('*',o)
    def __rmul__(s,o): return X(('*',getattr(o,'v',o),s.v))
    def __add__(s,o): return s._b('+',o)
    def __radd__(s,o): return X(('+',getattr(o,'v',o),s.v))
    def __sub__(s,o): return s._b('-',o)
    def __rsub__(s,o): return X(('-',getattr(o,'v',o),s.v))
    def __truediv__(s,o): return s._b('/',o)
    def __rtruediv__(s,o): return X(('/',getattr(o,'v',o),s.v))
    def __pow__(s,o): return s._b('**',o)
    def __neg__(s): return X(('neg',s.v))
    def __lt__(s,o): return X(('<',s.v,o))
    def __gt__(s,o): return X(('>',s.v,o))
    def __bool__(s): print('   [bool called on]', s.v); return True
    def __getattr__(s,name):
        if name.startswith('__'): raise AttributeError(name)
        def f(*a): return X((name,s.v)+tuple(getattr(t,'v',t) for t in a))
        return f
    def __repr__(s): return 'X%r'%(s.v,)
prog = sf.Program(2)
s = prog.params('s')
with prog.context as q:
    ops.CXgate(s) | (q[0], q[1])
    ops.Pgate(s) | q[0]
    ops.Xgate(s) | q[1]
    ops.Rgate(sf.math.sin(s)*2 + 1) | q[0]
c = prog.compile(compiler='gaussian')
s.val = X('s')
for cmd in c.circuit:
    try:
        print(type(cmd.op).__name__, [r.ind for r in cmd.reg], par_evaluate(cmd.op.p))
    except Exception as e:
        print(type(cmd.op).__name__, 'FAIL', type(e).__name__, e)
