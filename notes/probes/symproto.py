"""Throw-away prototype: symbolic real/complex scalars that survive numpy object arrays."""
from fractions import Fraction
import numbers
import z3
import numpy as _np

AXIOMS = []          # side conditions on atoms
_atoms = {}


def rv(x):
    if isinstance(x, Fraction):
        return z3.RealVal(str(x))
    if isinstance(x, bool):
        raise TypeError
    if isinstance(x, numbers.Integral):
        return z3.RealVal(int(x))
    if isinstance(x, float):
        return z3.RealVal(str(Fraction(x)))
    return x


class Ang:
    """linear form over angle symbols: dict name->Fraction, plus pi multiple"""

    def __init__(self, terms=None, pim=Fraction(0)):
        self.terms = {k: v for k, v in (terms or {}).items() if v != 0}
        self.pim = Fraction(pim)

    def __add__(self, o):
        if isinstance(o, _np.ndarray):
            return NotImplemented
        t = dict(self.terms)
        for k, v in o.terms.items():
            t[k] = t.get(k, 0) + v
        return Ang(t, self.pim + o.pim)

    def scale(self, f):
        return Ang({k: v * f for k, v in self.terms.items()}, self.pim * f)


def trig_atom(name):
    if name not in _atoms:
        c, s = z3.Real("c_" + name), z3.Real("s_" + name)
        AXIOMS.append(c * c + s * s == 1)
        _atoms[name] = (c, s)
    return _atoms[name]


def hyp_atom(name):
    key = "h_" + name
    if key not in _atoms:
        ch, sh = z3.Real("ch_" + name), z3.Real("sh_" + name)
        AXIOMS.append(ch * ch - sh * sh == 1)
        AXIOMS.append(ch >= 1)
        _atoms[key] = (ch, sh)
    return _atoms[key]


def cos_sin(ang):
    """returns (cos, sin) z3 exprs of a linear angle form (integer coefficients only)"""
    c, s = z3.RealVal(1), z3.RealVal(0)
    # pi multiples of 1/2 only
    q = ang.pim * 2
    assert q.denominator == 1, ang.pim
    k = int(q) % 4
    c, s = [(1, 0), (0, 1), (-1, 0), (0, -1)][k]
    c, s = z3.RealVal(c), z3.RealVal(s)
    for name, coef in ang.terms.items():
        assert coef.denominator == 1, (name, coef)
        n = int(coef)
        ca, sa = trig_atom(name)
        if n < 0:
            sa = -sa
            n = -n
        for _ in range(n):
            c, s = c * ca - s * sa, s * ca + c * sa
    return z3.simplify(c), z3.simplify(s)


class R:
    """symbolic real"""

    def __init__(self, e, ang=None, hyp=None):
        self.k = Fraction(e) if isinstance(e, (int, float, Fraction)) and not isinstance(e, bool) else None
        if self.k is not None and ang is None:
            ang = Ang({}, 0) if self.k == 0 else None
        self.e = rv(e)
        self.ang = ang   # Ang if this real is usable as an angle
        self.hyp = hyp   # (name, sign) if usable as hyperbolic arg

    @staticmethod
    def angle(name):
        return R(z3.Real(name), ang=Ang({name: Fraction(1)}))

    @staticmethod
    def hyper(name):
        return R(z3.Real(name), hyp=(name, 1))

    def _c(self):
        return C(self, R(0))

    def __add__(self, o):
        if isinstance(o, _np.ndarray):
            return NotImplemented
        if isinstance(o, (C, complex)):
            return self._c() + o
        o = toR(o)
        if o.k == 0:
            return self
        if self.k == 0:
            return o
        if self.k is not None and o.k is not None:
            return R(self.k + o.k)
        ang = self.ang + o.ang if self.ang is not None and o.ang is not None else None
        return R(self.e + o.e, ang)
    __radd__ = __add__

    def __neg__(self):
        if self.k is not None:
            return R(-self.k)
        return R(-self.e, self.ang.scale(-1) if self.ang is not None else None,
                 (self.hyp[0], -self.hyp[1]) if self.hyp else None)

    def __sub__(self, o):
        if isinstance(o, _np.ndarray):
            return NotImplemented
        return self + (-toRC(o))

    def __rsub__(self, o):
        if isinstance(o, _np.ndarray):
            return NotImplemented
        return toRC(o) + (-self)

    def __mul__(self, o):
        if isinstance(o, _np.ndarray):
            return NotImplemented
        if isinstance(o, (C, complex)):
            return self._c() * o
        o = toR(o)
        if self.k is not None and o.k is not None:
            return R(self.k * o.k)
        if self.k is not None:
            self, o = o, self
        if o.k is not None:
            if o.k == 0:
                return R(0)
            if o.k == 1:
                return self
            return R(self.e * o.e, self.ang.scale(o.k) if self.ang is not None else None)
        return R(self.e * o.e)
    __rmul__ = __mul__

    def __truediv__(self, o):
        if isinstance(o, _np.ndarray):
            return NotImplemented
        if isinstance(o, (C, complex)):
            return self._c() / o
        if isinstance(o, (int, Fraction)) and self.ang is not None:
            return R(self.e / rv(o), self.ang.scale(1 / Fraction(o)))
        o = toR(o)
        return R(self.e / o.e)

    def __rtruediv__(self, o):
        if isinstance(o, _np.ndarray):
            return NotImplemented
        return toRC(o) / self

    def __pow__(self, n):
        assert isinstance(n, int) and n >= 0
        r = R(1)
        for _ in range(n):
            r = r * self
        return r

    def conjugate(self):
        return self
    conj = conjugate

    @property
    def real(self):
        return self

    @property
    def imag(self):
        return R(0)

    def cos(self):
        return R(cos_sin(self.ang)[0])

    def sin(self):
        return R(cos_sin(self.ang)[1])

    def cosh(self):
        name, sg = self.hyp
        return R(hyp_atom(name)[0])

    def sinh(self):
        name, sg = self.hyp
        return R(hyp_atom(name)[1] * sg)

    def sqrt(self):
        key = "sqrt_" + self.e.sexpr()
        if key not in _atoms:
            q = z3.Real("q%d" % len(_atoms))
            AXIOMS.append(q * q == self.e)
            AXIOMS.append(q >= 0)
            _atoms[key] = q
        return R(_atoms[key])

    def exp(self):
        raise NotImplementedError

    def __repr__(self):
        return "R(%s)" % self.e


def toR(x):
    if isinstance(x, R):
        return x
    if isinstance(x, (int, float, Fraction)):
        return R(Fraction(x))
    if isinstance(x, z3.ExprRef):
        return R(x)
    if hasattr(x, "item"):
        return toR(x.item())
    raise TypeError(type(x))


def toRC(x):
    if isinstance(x, (R, C)):
        return x
    if isinstance(x, complex):
        return C(R(Fraction(x.real)), R(Fraction(x.imag)))
    if hasattr(x, "item"):
        return toRC(x.item())
    return toR(x)


def toC(x):
    x = toRC(x)
    return x if isinstance(x, C) else C(x, R(0))


class C:

    def __init__(self, re, im):
        self.re, self.im = toR(re), toR(im)

    def __add__(self, o):
        if isinstance(o, _np.ndarray):
            return NotImplemented
        o = toC(o)
        return C(self.re + o.re, self.im + o.im)
    __radd__ = __add__

    def __neg__(self):
        return C(-self.re, -self.im)

    def __sub__(self, o):
        if isinstance(o, _np.ndarray):
            return NotImplemented
        return self + (-toC(o))

    def __rsub__(self, o):
        if isinstance(o, _np.ndarray):
            return NotImplemented
        return toC(o) - self

    def __mul__(self, o):
        if isinstance(o, _np.ndarray):
            return NotImplemented
        o = toC(o)
        return C(self.re * o.re - self.im * o.im, self.re * o.im + self.im * o.re)
    __rmul__ = __mul__

    def __truediv__(self, o):
        if isinstance(o, _np.ndarray):
            return NotImplemented
        o = toC(o)
        d = o.re * o.re + o.im * o.im
        n = self * o.conjugate()
        return C(n.re / d, n.im / d)

    def __rtruediv__(self, o):
        if isinstance(o, _np.ndarray):
            return NotImplemented
        return toC(o) / self

    def conjugate(self):
        return C(self.re, -self.im)
    conj = conjugate

    @property
    def real(self):
        return self.re

    @property
    def imag(self):
        return self.im

    def exp(self):
        # only purely imaginary supported: exp(i*phi)
        assert z3.is_true(z3.simplify(self.re.e == 0)), self.re
        a = self.im
        return C(a.cos(), a.sin())

    def __repr__(self):
        return "C(%s, %s)" % (z3.simplify(self.re.e), z3.simplify(self.im.e))


def prove_eq(a, b, extra=(), timeout=60000):
    """returns ('unsat'|'sat'|'unknown', model)"""
    a, b = toC(a), toC(b)
    s = z3.Solver()
    s.set("timeout", timeout)
    for ax in AXIOMS:
        s.add(ax)
    for e in extra:
        s.add(e)
    s.add(z3.Or(a.re.e != b.re.e, a.im.e != b.im.e))
    r = s.check()
    return str(r), (s.model() if str(r) == "sat" else None)
