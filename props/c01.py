"""C01: all simulator backends compute the same physics"""
from . import phase_harness as PH
from . import fock_harness as FH


def build(ctx):
    PH.jobs(ctx, "ref")
    FH.jobs(ctx)
    from . import fockgates as FG
    FG.jobs(ctx)
    from . import dispatch as DP
    DP.jobs(ctx)
