"""C01: all simulator backends compute the same physics"""
from . import phase_harness as PH


def build(ctx):
    PH.jobs(ctx, "ref")
