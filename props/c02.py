"""C02: decompositions implement the documented transformation (and C01.4: front-end dispatch)"""
import itertools
import numpy as np

from symx import fn
from . import common as C
from . import frontend as F

# gate -> (parameter names, number of modes)
GATES = {
    "Xgate": (["x"], 1), "Zgate": (["p"], 1), "Pgate": (["s"], 1), "CXgate": (["s"], 2), "CZgate": (["s"], 2),
    "S2gate": (["r", "phi"], 2), "MZgate": (["phi_in", "phi_ex"], 2), "Fouriergate": ([], 1),
    "Dgate": (["r", "phi"], 1), "Sgate": (["r", "phi"], 1), "Rgate": (["theta"], 1), "BSgate": (["theta", "phi"], 2),
}


def doc_spec(gate, p, modes, n, like, hbar=2):
    """documented Heisenberg action (A, B, d) of a front-end gate (notes/conventions.md)"""
    A, B, d = C.ident(n, like), C.zmat(n, like), C.zvec(n, like)
    one = 1 + 0 * A[0, 0]
    if gate == "Xgate":
        d[modes[0]] = p[0] / fn.sqrt(2 * hbar * one)
    elif gate == "Zgate":
        d[modes[0]] = 1j * p[0] / fn.sqrt(2 * hbar * one)
    elif gate == "Pgate":
        k = modes[0]
        A[k, k] = 1 + 1j * p[0] / 2
        B[k, k] = 1j * p[0] / 2 + 0 * one
    elif gate == "CXgate":
        k, l = modes
        s = p[0]
        A[k, l] = -s / 2 + 0 * one
        B[k, l] = s / 2 + 0 * one
        A[l, k] = s / 2 + 0 * one
        B[l, k] = s / 2 + 0 * one
    elif gate == "CZgate":
        k, l = modes
        s = p[0]
        A[k, l] = 1j * s / 2 + 0 * one
        B[k, l] = 1j * s / 2 + 0 * one
        A[l, k] = 1j * s / 2 + 0 * one
        B[l, k] = 1j * s / 2 + 0 * one
    elif gate == "S2gate":
        return C.spec("two_mode_squeeze", p, modes, n, like)
    elif gate == "MZgate":
        k, l = modes
        e_in, e_ex = fn.expi(p[0]), fn.expi(p[1])
        A[k, k] = (e_in - 1) * e_ex / 2
        A[k, l] = 1j * (1 + e_in) / 2
        A[l, k] = 1j * (1 + e_in) * e_ex / 2
        A[l, l] = (1 - e_in) / 2
    elif gate == "Fouriergate":
        A[modes[0], modes[0]] = 1j * one
    elif gate == "Dgate":
        return C.spec("displacement", p, modes, n, like)
    elif gate == "Sgate":
        return C.spec("squeeze", p, modes, n, like)
    elif gate == "Rgate":
        return C.spec("rotation", p, modes, n, like)
    elif gate == "BSgate":
        return C.spec("beamsplitter", p, modes, n, like)
    else:
        raise KeyError(gate)
    return A, B, d


def h_gate(g, gate, modes, n, dagger, compiler):
    """front-end gate (free parameters bound to symbols) -> real compile/decompose -> real Gaussian backend,
    from an arbitrary state; compare with the documented map (dagger: documented map applied to the result gives
    back the initial state)"""
    import strawberryfields as sf
    from strawberryfields import ops
    be = C.gauss_backend(g, n)
    s0 = C.gauss_snapshot(be)
    names, k = GATES[gate]
    vals = [g.real(nm) for nm in names]
    prog = sf.Program(n)
    pars = [prog.params(nm) for nm in names]
    op = getattr(ops, gate)(*pars)
    if dagger:
        op = op.H
    with prog.context as q:
        op | tuple(q[m] for m in modes)
    if compiler is not None:
        prog = prog.compile(compiler=compiler)
    for par, v in zip(pars, vals):
        par.val = v
    F.apply_cmds(prog.circuit, be)
    s1 = F.gauss_final(be)
    if not dagger:
        A, B, d = doc_spec(gate, vals, modes, n, s0[0])
    elif gate in ("MZgate", "Fouriergate"):
        # passive: the inverse of a -> U a is a -> U^+ a
        A, B, d = doc_spec(gate, vals, modes, n, s0[0])
        A = fn.conj(A).T
    else:
        # documented: the inverse gate is obtained by negating p[0]
        A, B, d = doc_spec(gate, [-vals[0]] + vals[1:], modes, n, s0[0])
    ref = C.bogoliubov_nm(s0[0], s0[1], s0[2], A, B, d)
    F.eq_gauss_state(g, gate + (".H" if dagger else ""), s1, ref)


def h_decompose_twice(g, gate, dagger):
    """decomposing the same (possibly daggered) operation twice gives equal command lists and leaves it unchanged"""
    import strawberryfields as sf
    from strawberryfields import ops
    names, k = GATES[gate]
    vals = [g.real(nm) for nm in names]
    op = getattr(ops, gate)(*vals) if False else None
    prog = sf.Program(2)
    pars = [prog.params(nm) for nm in names]
    op = getattr(ops, gate)(*pars)
    if dagger:
        op = op.H
    regs = prog.register[:k]
    p_before = list(op.p)
    try:
        a = op.decompose(regs)
        b = op.decompose(regs)
    except NotImplementedError:
        g.fact("no decomposition", True)
        return
    g.fact("same length", len(a) == len(b))
    g.fact("same ops", all(type(x.op) is type(y.op) and x.reg == y.reg and getattr(x.op, "dagger", None) == getattr(y.op, "dagger", None)
                           for x, y in zip(a, b)))
    g.fact("op untouched", op.dagger == dagger and all(x is y for x, y in zip(op.p, p_before)))


def h_interferometer(g, mesh, perm, dagger, drop_identity):
    """ops.Interferometer(U, mesh) on a phased permutation U (every non-zero entry carries a symbolic phase; the exact
    zeros drive the mesh decompositions and the command builder through their special branches): the commands
    returned by the real decomposition, applied to the real Gaussian backend from an arbitrary state, implement the
    documented passive transformation a -> U a (daggered: its inverse)"""
    import strawberryfields as sf
    from strawberryfields import ops
    n = len(perm)
    from symx.symarray import sarray
    like = fn.zeros((1,), sarray([0]) if g.sym else np.zeros(1))
    U = fn.zeros((n, n), like) if g.sym else np.zeros((n, n), dtype=complex)
    for i, j in enumerate(perm):
        U[i, j] = fn.expi(g.real("ph%d" % i))
    op = ops.Interferometer(U, mesh=mesh, drop_identity=drop_identity)
    if dagger:
        op = op.H
    prog = sf.Program(n)
    with prog.context as q:
        op | tuple(q[m] for m in range(n))
    prog = prog.compile(compiler="gaussian")
    names = [type(c.op).__name__ for c in prog.circuit]
    g.fact("decomposed into beamsplitters, interferometer cells and rotations", set(names) <= {"BSgate", "Rgate", "MZgate"},
           detail=repr(names))
    # net passive transformation of the returned commands, each read with its documented matrix
    A = C.ident(n, like)
    for c in prog.circuit:
        Ak, _, _ = doc_spec(type(c.op).__name__, list(c.op.p), [r.ind for r in c.reg], n, like)
        if c.op.dagger:
            Ak = fn.conj(Ak).T if type(c.op).__name__ == "MZgate" else doc_spec(type(c.op).__name__, [-c.op.p[0]] + list(c.op.p[1:]),
                                                                                 [r.ind for r in c.reg], n, like)[0]
        A = Ak @ A
    g.eq("Interferometer[%s]%s" % (mesh, ".H" if dagger else ""), A, fn.conj(U).T if dagger else U)


def _imods():
    import strawberryfields.decompositions as dec
    return list(F.all_modules()) + [dec]


def build(ctx):
    n = 3
    mods = F.all_modules
    import itertools as _it
    # (command level for rectangular_phase_end / rectangular_symmetric: the builder's tolerance tests on atan2-derived angles
    # give path-feasibility queries that take a minute each -> outside; their matrix level is in C17)
    meshes = ["rectangular", "triangular"]
    ctx.outside += ["Interferometer command builders for rectangular_phase_end / rectangular_symmetric / *_compact / sun_compact meshes "
                    "(matrix level of the first two: C17), inputs other than 3x3 phased permutations at command level",
                    "GraphEmbed, BipartiteGraphEmbed, GaussianTransform, Gaussian (Takagi / Williamson / Bloch-Messiah through LAPACK)"]
    for mesh in meshes:
        for perm in _it.permutations(range(3)):
            for dagger in (False,):        # Interferometer is a Decomposition: it has no .H
                ctx.add("interferometer.%s.%s%s" % (mesh, "".join(map(str, perm)), ".H" if dagger else ""), h_interferometer,
                        {"mesh": mesh, "perm": list(perm), "dagger": dagger, "drop_identity": True}, modules=_imods,
                        functions=["ops.Interferometer.__init__", "ops.Interferometer._decompose", "decompositions.%s" % mesh,
                                   "Gate.decompose", "Compiler.decompose", "GaussianBackend.*"],
                        bounds={"modes": 3, "unitary": "permutation %s with a symbolic phase on each non-zero entry" % (perm,),
                                "mesh": mesh, "dagger": dagger}, validate_points=1)
    for gate, (names, k) in GATES.items():
        choices = C.ordered_choices(n, k)
        if not ctx.thorough:
            choices = [c for c in choices if c in ((1,), (0, 1), (2, 0), (1, 2), (2, 1))]
        for modes in choices:
            for dagger in (False, True):
                ctx.add("decomp.%s%s%s" % (gate, list(modes), ".H" if dagger else ""), h_gate,
                        {"gate": gate, "modes": list(modes), "n": n, "dagger": dagger, "compiler": "gaussian"},
                        modules=mods,
                        functions=["ops.%s._decompose" % gate, "Gate.decompose", "Gate.apply", "Compiler.decompose",
                                   "parameters.par_evaluate", "GaussianBackend.*"],
                        bounds={"modes": n, "targets": list(modes), "dagger": dagger, "parameters": "all real values"})
    for gate in GATES:
        for dagger in (False, True):
            ctx.add("decompose_twice.%s%s" % (gate, ".H" if dagger else ""), h_decompose_twice,
                    {"gate": gate, "dagger": dagger}, modules=mods, functions=["Gate.decompose"], bounds={},
                    validate_points=0)
