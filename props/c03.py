"""C03: optimisation preserves meaning (merge rules per family; optimize() on command sequences)"""
import copy
import inspect
import itertools
import numpy as np

from symx import fn
from . import common as C
from . import frontend as F
from . import fock_harness as FH


def clone_gauss(be):
    from strawberryfields.backends.gaussianbackend.backend import GaussianBackend
    from strawberryfields.backends.gaussianbackend.gaussiancircuit import GaussianModes
    b2 = GaussianBackend()
    st = GaussianModes.__new__(GaussianModes)
    c = be.circuit
    st.hbar, st.nlen, st.active = c.hbar, c.nlen, list(c.active)
    st.nmat, st.mmat, st.mean = c.nmat.copy(), c.mmat.copy(), c.mean.copy()
    b2.circuit = st
    b2._init_modes = be._init_modes
    return b2


# parameter domains where the operation is defined
DOMAINS = {"T": {"lo": 0, "hi": 1}, "nbar": {"lo": 0}, "n": {"lo": 0}}
# MZgate / sMZgate are not in this list: optimize_circuit never merges operations on more than one mode (ns != 1 is
# skipped), so their merge rule is not reachable through Program.optimize / compile(optimize=True).  (Their inherited
# Gate.merge adds the internal phases, which is not the composition; that two-mode gates stay unmerged is asserted
# through the optimize loop below, where MZ01 is in the alphabet.)
GAUSS_FAMILIES = ["Dgate", "Xgate", "Zgate", "Sgate", "Pgate", "Rgate", "BSgate", "S2gate", "CXgate",
                  "CZgate", "Fouriergate", "LossChannel", "ThermalLossChannel"]
PREP_FAMILIES = ["Vacuum", "Coherent", "Squeezed", "DisplacedSqueezed", "Thermal"]
FOCK_FAMILIES = ["Kgate", "CKgate"]


def param_names(cls):
    sig = inspect.signature(cls.__init__)
    return [p for p in sig.parameters if p != "self"]


def build_pair(g, prog, cls, share_rest, mode):
    """two operations of one family.  mode 'free': FreeParameters (bound later to symbols); mode 'value': symbols as
    plain values (so that the merge rule's own equality tests fork on real-arithmetic predicates)"""
    names = param_names(cls)
    vals_a, vals_b, pars_a, pars_b = [], [], [], []
    for i, nm in enumerate(names):
        dom = DOMAINS.get(nm, {})
        va = g.real("a_" + nm, **dom)
        if i == 0 or not share_rest:
            vb = g.real("b_" + nm, **dom)
        else:
            vb = va
        vals_a.append(va)
        vals_b.append(vb)
        if mode == "free":
            pa = prog.params("a_" + nm)
            pb = prog.params("b_" + nm) if (i == 0 or not share_rest) else pa
        else:
            pa, pb = va, vb
        pars_a.append(pa)
        pars_b.append(pb)
    return cls(*pars_a), cls(*pars_b), (pars_a, vals_a, pars_b, vals_b)


def bind_all(info):
    pars_a, vals_a, pars_b, vals_b = info
    for p, v in list(zip(pars_a, vals_a)) + list(zip(pars_b, vals_b)):
        if hasattr(p, "val") and hasattr(p, "name"):
            p.val = v


def h_merge_gauss(g, family, da, db, share_rest, mode, order):
    import strawberryfields as sf
    from strawberryfields import ops
    from strawberryfields.program_utils import MergeFailure, Command
    cls = getattr(ops, family)
    n = 3
    prog = sf.Program(n)
    a, b, info = build_pair(g, prog, cls, share_rest, mode)
    if da:
        a = a.H
    if db:
        b = b.H
    pa, pb, da0, db0 = list(a.p), list(b.p), getattr(a, "dagger", None), getattr(b, "dagger", None)
    try:
        m = a.merge(b)
    except MergeFailure:
        g.fact("MergeFailure is always acceptable", True)
        return
    except TypeError:
        # e.g. np.allclose on a sympy expression inside Channel.merge: nothing was merged
        g.fact("merge refused (TypeError)", True)
        return
    g.fact("merge does not modify its operands",
           all(x is y for x, y in zip(a.p, pa)) and all(x is y for x, y in zip(b.p, pb)) and
           getattr(a, "dagger", None) == da0 and getattr(b, "dagger", None) == db0)
    ns = cls.ns if getattr(cls, "ns", None) else 1
    targets = order[:ns]
    reg = [prog.register[i] for i in targets]
    seq1 = [Command(a, reg), Command(b, reg)]
    seq2 = [] if m is None else [Command(m, reg)]
    bind_all(info)
    be1 = C.gauss_backend(g, n)
    be2 = clone_gauss(be1)
    if family in DOC_INTERPRETED:
        # interpreted by the documented map of the gate (which C02 proves equal to what its decomposition does on the
        # real backend for all parameter values); the code under test here is the merge rule
        s1 = doc_run(seq1, C.gauss_snapshot(be1), n)
        s2 = doc_run(seq2, C.gauss_snapshot(be2), n)
        F.eq_gauss_state(g, "merged(%s)" % ("None" if m is None else type(m).__name__), s2, s1)
        return
    c1 = F.compile_cmds(seq1, n, "gaussian").circuit
    c2 = F.compile_cmds(seq2, n, "gaussian").circuit if seq2 else []
    F.apply_cmds(c1, be1)
    F.apply_cmds(c2, be2)
    F.eq_gauss_state(g, "merged(%s)" % ("None" if m is None else type(m).__name__), F.gauss_final(be2), F.gauss_final(be1))


DOC_INTERPRETED = ("Pgate", "CXgate", "CZgate")


def doc_run(cmds, state, n):
    from strawberryfields.parameters import par_evaluate
    from . import c02
    N, M, a = state
    for cmd in cmds:
        vals = par_evaluate(cmd.op.p)
        if cmd.op.dagger:
            vals = [-vals[0]] + list(vals[1:])
        A, B, d = c02.doc_spec(type(cmd.op).__name__, vals, [r.ind for r in cmd.reg], n, N)
        N, M, a = C.bogoliubov_nm(N, M, a, A, B, d)
    return N, M, a


def h_merge_prep(g, fa, fb):
    import strawberryfields as sf
    from strawberryfields import ops
    from strawberryfields.program_utils import MergeFailure, Command
    import warnings
    n = 2
    prog = sf.Program(n)

    def mk(fam, tag):
        cls = getattr(ops, fam)
        vals = [g.real("%s_%s" % (tag, nm), **DOMAINS.get(nm, {})) for nm in param_names(cls)]
        return cls(*vals)
    a, b = mk(fa, "a"), mk(fb, "b")
    with warnings.catch_warnings():
        warnings.simplefilter("ignore")
        try:
            m = a.merge(b)
        except MergeFailure:
            g.fact("MergeFailure is always acceptable", True)
            return
    reg = [prog.register[1]]
    be1 = C.gauss_backend(g, n)
    be2 = clone_gauss(be1)
    F.apply_cmds([Command(a, reg), Command(b, reg)], be1)
    F.apply_cmds([Command(m, reg)] if m is not None else [], be2)
    F.eq_gauss_state(g, "merged", F.gauss_final(be2), F.gauss_final(be1))


def fock_backend(g, n, D, pure=True):
    from strawberryfields.backends.fockbackend.backend import FockBackend
    be = FockBackend()
    be.begin_circuit(n, cutoff_dim=D, pure=pure)
    be.circuit._state = g.ctensor("psi", (D,) * n) if pure else FH.herm_tensor(g, "rho", n, D)
    return be


def h_merge_fock(g, family, da, db):
    import strawberryfields as sf
    from strawberryfields import ops
    from strawberryfields.program_utils import MergeFailure, Command
    cls = getattr(ops, family)
    n, D = 2, 3
    prog = sf.Program(n)
    a, b, info = build_pair(g, prog, cls, True, "value")
    if da:
        a = a.H
    if db:
        b = b.H
    try:
        m = a.merge(b)
    except MergeFailure:
        g.fact("MergeFailure is always acceptable", True)
        return
    reg = [prog.register[i] for i in range(cls.ns if getattr(cls, "ns", None) else 1)]
    be1 = fock_backend(g, n, D)
    s0 = be1.circuit._state.copy()
    F.apply_cmds([Command(a, reg), Command(b, reg)], be1)
    be2 = fock_backend.__wrapped__(g, n, D) if hasattr(fock_backend, "__wrapped__") else None
    from strawberryfields.backends.fockbackend.backend import FockBackend
    be2 = FockBackend()
    be2.begin_circuit(n, cutoff_dim=D, pure=True)
    be2.circuit._state = s0
    F.apply_cmds([Command(m, reg)] if m is not None else [], be2)
    g.eq("merged", be2.circuit._state, be1.circuit._state)


# ------------------------------------------------------------------------------------------ optimize loop

# alphabet of command templates: (name, op constructor taking (ops module, value maker, register), target modes)
def _alphabet(nmodes):
    A = []

    def add(name, mk, modes, needs_measure=None):
        A.append({"name": name, "mk": mk, "modes": modes, "needs": needs_measure})
    for m in range(nmodes):
        add("R%d" % m, lambda o, v, q: o.Rgate(v("theta")), (m,))
        add("R.H%d" % m, lambda o, v, q: o.Rgate(v("theta")).H, (m,))
    add("S0", lambda o, v, q: o.Sgate(v("r")), (0,))
    add("S.H0", lambda o, v, q: o.Sgate(v("r")).H, (0,))
    add("D0", lambda o, v, q: o.Dgate(v("x")), (0,))
    add("F0", lambda o, v, q: o.Fouriergate(), (0,))
    add("F.H0", lambda o, v, q: o.Fouriergate().H, (0,))
    add("Loss0", lambda o, v, q: o.LossChannel(v("T", lo=0, hi=1)), (0,))
    add("Vac0", lambda o, v, q: o.Vacuum(), (0,))
    add("Coh0", lambda o, v, q: o.Coherent(v("a")), (0,))
    add("BS01", lambda o, v, q: o.BSgate(v("theta"), v("phi")), (0, 1))
    add("BS10", lambda o, v, q: o.BSgate(v("theta"), v("phi")), (1, 0))
    add("MZ01", lambda o, v, q: o.MZgate(v("phi_in"), v("phi_ex")), (0, 1))
    add("MeasX1", lambda o, v, q: o.MeasureX, (1,))
    add("R(q1)0", lambda o, v, q: o.Rgate(q[1].par), (0,), 1)
    add("D(q1)0", lambda o, v, q: o.Dgate(q[1].par), (0,), 1)
    add("R(2*q1).H0", lambda o, v, q: o.Rgate(2 * q[1].par).H, (0,), 1)
    return A


def h_optimize(g, seq, nmodes):
    """original and optimised program leave the same state (measurement outcomes shared), original untouched"""
    import strawberryfields as sf
    from strawberryfields import ops
    A = {a["name"]: a for a in _alphabet(nmodes)}
    prog = sf.Program(nmodes)
    # with measured parameters (sympy objects) in the program the other parameters must be sympy objects too
    use_free = any(A[nm]["needs"] is not None for nm in seq)
    bound = []

    with prog.context as q:
        for pos, name in enumerate(seq):
            a = A[name]

            def v(nm, **kw):
                val = g.real("c%d_%s" % (pos, nm), **kw)
                if not use_free:
                    return val
                par = prog.params("c%d_%s" % (pos, nm))
                bound.append((par, val))
                return par
            op = a["mk"](ops, v, q)
            op | tuple(q[m] for m in a["modes"])
    orig_cmds = list(prog.circuit)
    orig_snapshot = [(c.op, list(c.op.p), getattr(c.op, "dagger", None), list(c.reg)) for c in orig_cmds]
    opt = prog.optimize()
    g.fact("original circuit list untouched", len(prog.circuit) == len(orig_cmds) and all(x is y for x, y in zip(prog.circuit, orig_cmds)))
    g.fact("original operations untouched",
           all(c.op is o and len(c.op.p) == len(p) and all(x is y for x, y in zip(c.op.p, p)) and getattr(c.op, "dagger", None) == d
               and list(c.reg) == r for c, (o, p, d, r) in zip(orig_cmds, orig_snapshot)))
    g.fact("registers shared", all(prog.reg_refs[k] is opt.reg_refs[k] for k in prog.reg_refs))
    outcomes = []

    def mvn(mean, cov, size=1):
        # shared symbolic measurement outcomes: the i-th draw of either run returns the same symbols
        k = mvn.calls
        mvn.calls += 1
        while len(outcomes) <= k:
            outcomes.append([g.real("m%d_x" % len(outcomes)), g.real("m%d_p" % len(outcomes))])
        if g.sym:
            from symx.symarray import sarray
            return sarray([outcomes[k]])
        return np.array([outcomes[k]])
    g.random_handler("multivariate_normal", mvn)
    for par, val in bound:
        par.val = val
    finals = []
    be0 = C.gauss_backend(g, nmodes)
    for circuit in (prog.circuit, opt.circuit):
        be = clone_gauss(be0)
        mvn.calls = 0
        for r in prog.reg_refs.values():
            r.val = None
        p2 = prog._linked_copy()
        p2.circuit = list(circuit)
        compiled = p2.compile(compiler="gaussian")       # shares the RegRefs, as Engine.run does
        for cmd in compiled.circuit:
            cmd.op.apply(cmd.reg, be)
        finals.append(F.gauss_final(be))
    F.eq_gauss_state(g, "optimized", finals[1], finals[0])


def sequences(alphabet, L, nmodes):
    names = [a["name"] for a in alphabet]
    needs = {a["name"]: a["needs"] for a in alphabet}
    for l in range(2, L + 1):
        for seq in itertools.product(names, repeat=l):
            measured = False
            ok = True
            for nm in seq:
                if nm.startswith("Meas"):
                    if measured:
                        ok = False
                    measured = True
                elif needs[nm] is not None and not measured:
                    ok = False
                elif measured and nm in ("BS01", "BS10", "MZ01"):
                    pass
            if ok:
                yield list(seq)


def build(ctx):
    mods = F.all_modules
    fns = ["Gate.merge", "Channel.merge", "Preparation.merge", "Gate.apply", "Compiler.decompose", "GaussianBackend.*"]
    for fam in GAUSS_FAMILIES:
        is_gate = fam.endswith("gate")
        dag = [(False, False), (True, False), (False, True), (True, True)] if is_gate else [(False, False)]
        for da, db in dag:
            for mode in ("free", "value"):
                if mode == "value" and fam not in ("Dgate", "Sgate", "Rgate", "BSgate", "LossChannel", "ThermalLossChannel"):
                    continue        # their decompositions use sympy functions: parameters must be FreeParameters
                for share in ((True, False) if mode == "value" else (True,)):
                    ctx.add("merge.%s.%s%s.%s%s" % (fam, "H" if da else "", "H" if db else "", mode, "" if share else ".indep"),
                            h_merge_gauss,
                            {"family": fam, "da": da, "db": db, "share_rest": share, "mode": mode, "order": [1, 0] if not ctx.thorough else [2, 0]},
                            modules=mods, functions=fns,
                            bounds={"modes": 3, "family": fam, "daggers": [da, db], "parameters": "all real values (%s)" % mode})
    for fa, fb in itertools.product(PREP_FAMILIES, repeat=2):
        if not ctx.thorough and fa != fb and (fa, fb) not in (("Vacuum", "Coherent"), ("Squeezed", "Thermal"), ("Coherent", "Vacuum")):
            continue
        ctx.add("merge.prep.%s.%s" % (fa, fb), h_merge_prep, {"fa": fa, "fb": fb}, modules=mods, functions=fns,
                bounds={"modes": 2})
    for fam in FOCK_FAMILIES:
        for da, db in [(False, False), (True, False), (False, True), (True, True)]:
            ctx.add("merge.%s.%s%s" % (fam, "H" if da else "", "H" if db else ""), h_merge_fock,
                    {"family": fam, "da": da, "db": db},
                    modules=lambda: C.fock_modules() + F.frontend_modules(), functions=fns + ["fockbackend.ops.kerr", "fockbackend.ops.cross_kerr"],
                    bounds={"modes": 2, "cutoff": 3, "family": fam})

    # optimize loop over command sequences
    nm = 2
    alpha = _alphabet(nm)
    seqs = list(sequences(alpha, 2, nm))
    if ctx.thorough:
        # length 3 over a reduced alphabet (the full one gives 4.3k sequences, several hundred of them with
        # ten-minute queries: three mergeable gates in a row put three angles into one linear path condition)
        red = [a for a in alpha if a["name"] in ("R0", "R.H0", "R1", "S0", "D0", "F0", "Loss0", "Vac0", "BS01", "MeasX1", "R(q1)0")]
        def fam_(x):
            return x.replace(".H", "")
        # (three gates of one merge family in a row -- R|R|R, D|D|D ... -- need ten-minute queries: only R0|R0|R0 is kept)
        seqs += [s for s in sequences(red, 3, nm) if len(s) == 3 and (len(set(fam_(x) for x in s)) > 1 or s == ["R0", "R0", "R0"])]
    if not ctx.thorough:
        # plus the length-3 sequences around a measurement (where a command sits on several wires of the grid)
        extra = [s for s in sequences([a for a in alpha if a["name"] in ("MeasX1", "R(q1)0", "D(q1)0", "R(2*q1).H0", "R0", "R1", "F0")], 3, nm)
                 if len(s) == 3 and "MeasX1" in s]
        seqs += extra
    for s_ in seqs:
        ctx.add("optimize." + "|".join(s_), h_optimize, {"seq": s_, "nmodes": nm}, modules=mods,
                functions=["program_utils.optimize_circuit", "Program.optimize", "Program._linked_copy", "Gate.merge",
                           "Channel.merge", "Preparation.merge", "list_to_grid", "grid_to_DAG", "DAG_to_list",
                           "MeasureHomodyne.apply", "GaussianModes.measure_dyne"],
                bounds={"modes": nm, "length": len(s_), "alphabet": [a["name"] for a in alpha]}, validate_points=1)
