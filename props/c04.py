"""C04: reorderings respect dependencies (CrossHair on the real graph plumbing of program_utils and GBS.compile)"""
from . import xhrun


def build(ctx):
    ctx.outside += ["sequences longer than the bounds below (CrossHair's cost grows about tenfold per command)",
                    "gaussian_merge's DAG surgery (C11)", "optimize_circuit's regrouping (exercised semantically in C03)"]


def xh(ctx):
    if ctx.thorough:
        checks = ["check_roundtrip_L2", "check_roundtrip_L3", "check_roundtrip_deps_L2", "check_roundtrip_deps_L3",
                  "check_group_L2", "check_group_L3", "check_grid_L2", "check_grid_L3", "check_gbs_L2", "check_gbs_L3"]
        tmo = 3000
    else:
        checks = ["check_roundtrip_L2", "check_roundtrip_deps_L2", "check_group_L2", "check_grid_L2", "check_gbs_L2"]
        tmo = 400
    return [xhrun.run("xh/c04_reorder.py", checks, ["twin_roundtrip", "twin_group", "twin_grid", "twin_gbs"], tmo, ctx.prop)]
