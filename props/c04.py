"""C04: reorderings respect dependencies.

Engine X: CrossHair on the real graph plumbing of program_utils and GBS.compile (xh/c04_reorder.py).
Engine P: the same obligations with the command shapes as symbolic choice variables explored by the path explorer
(every shape of every command is a solver-checked branch); this reaches three and four commands, readers of measured
values included, in seconds."""
import itertools

from . import xhrun


def mods():
    import strawberryfields.program_utils as pu
    return [pu]


class Op:
    ns = 1

    def __init__(self, marked=False, deps=()):
        self.marked = marked
        self.measurement_deps = set(deps)

    def __str__(self):
        return "Op(marked=%s, deps=%s)" % (self.marked, sorted(r.ind for r in self.measurement_deps))


def pick(g, name, k):
    """symbolic choice in range(k): one real variable cut into k intervals (each cut forks the explorer)"""
    v = g.real(name, lo=0, hi=k)
    for i in range(k - 1):
        if v < i + 1:
            return i
    return k - 1


def wires(c):
    return set(r.ind for r in c.reg) | set(r.ind for r in c.op.measurement_deps)


def order_violation(seq, out):
    if len(out) != len(seq) or sorted(map(id, out)) != sorted(map(id, seq)):
        return "not a permutation of the input commands"
    pos = {id(c): i for i, c in enumerate(out)}
    for i in range(len(seq)):
        for j in range(i + 1, len(seq)):
            if wires(seq[i]) & wires(seq[j]) and pos[id(seq[i])] > pos[id(seq[j])]:
                return "command %d moved after dependent command %d" % (i, j)
    return ""


def h_reorder(g, L, nm, first, marks):
    """first: concrete shape (a, b, dep) of command 0 (splits the space into parallel jobs); the other commands are
    symbolic.  marks: whether group_operations' predicate bit is symbolic too"""
    import networkx as nx
    import strawberryfields.program_utils as pu
    from strawberryfields.program_utils import Command, RegRef
    regs = [RegRef(i) for i in range(nm)]
    seq = []
    desc = []
    for k in range(L):
        if k == 0 and first is not None:
            a, b, d = first
        else:
            a, b, d = pick(g, "a%d" % k, nm), pick(g, "b%d" % k, nm), pick(g, "d%d" % k, nm + 1) - 1
        m = bool(pick(g, "m%d" % k, 2)) if marks else False
        deps = [regs[d]] if d >= 0 else []
        seq.append(Command(Op(m, deps), [regs[a]] if a == b else [regs[a], regs[b]]))
        desc.append((a, b, d, m))
    detail = repr(desc)
    # grid: every wire lists exactly the commands that touch or read it, in program order
    grid = pu.list_to_grid(seq)
    ok = all(k in grid for c in seq for k in wires(c))
    for k, q in grid.items():
        ok = ok and [id(c) for c in q] == [id(c) for c in seq if k in wires(c)]
    g.fact("list_to_grid: each wire lists its commands (targets and measured-value readers) in order", ok, detail=detail)
    # DAG: orders every dependent pair, never against the program order
    dag = pu.list_to_DAG(seq)
    pos = {id(c): i for i, c in enumerate(seq)}
    ok = sorted(map(id, dag.nodes)) == sorted(map(id, seq)) and all(pos[id(u)] < pos[id(v)] for u, v in dag.edges)
    missing = [(i, j) for i in range(L) for j in range(i + 1, L)
               if wires(seq[i]) & wires(seq[j]) and not nx.has_path(dag, seq[i], seq[j])]
    g.fact("list_to_DAG: a path between every dependent pair, no edge against program order", ok and not missing,
           detail="%s missing=%s" % (detail, missing))
    g.fact("DAG_to_list(list_to_DAG) respects dependencies", order_violation(seq, pu.DAG_to_list(dag)) == "",
           detail="%s: %s" % (detail, order_violation(seq, pu.DAG_to_list(dag))))
    A, B, C_ = pu.group_operations(seq, lambda op: op.marked)
    out = list(A) + list(B) + list(C_)
    g.fact("group_operations respects dependencies", order_violation(seq, out) == "",
           detail="%s: %s" % (detail, order_violation(seq, out)))
    g.fact("group_operations: marked commands only in B; C empty when B is",
           not any(c.op.marked for c in A) and not any(c.op.marked for c in C_) and (bool(B) or not C_), detail=detail)


def build(ctx):
    ctx.outside += ["sequences longer than the bounds below", "gaussian_merge's DAG surgery (C11)",
                    "optimize_circuit's regrouping (exercised semantically in C03)"]
    fns = ["program_utils.list_to_grid", "program_utils.grid_to_DAG", "program_utils.list_to_DAG", "program_utils.DAG_to_list",
           "program_utils.group_operations"]
    cases = [(3, 2, True), (3, 3, False)] if not ctx.thorough else [(3, 3, True), (4, 2, True)]
    for L, nm, marks in cases:
        for first in itertools.product(range(nm), range(nm), range(-1, nm)):
            ctx.add("reorder.L%d.modes%d.first%s" % (L, nm, "".join(str(x) for x in first)), h_reorder,
                    {"L": L, "nm": nm, "first": list(first), "marks": marks}, modules=mods, functions=fns,
                    bounds={"commands": L, "modes": nm, "shapes": "one- and two-mode targets, optional measured-value dependency on any mode",
                            "predicate bits": "symbolic" if marks else "all False"}, max_paths=200000, validate_points=0)


def xh(ctx):
    if ctx.thorough:
        checks = ["check_roundtrip_L2", "check_roundtrip_L3", "check_roundtrip_deps_L2", "check_roundtrip_deps_L3",
                  "check_group_L2", "check_group_L3", "check_grid_L2", "check_grid_L3", "check_gbs_L2", "check_gbs_L3",
                  "check_dag_deps_L2", "check_dag_deps_L3"]
        tmo = 3000
    else:
        checks = ["check_roundtrip_L2", "check_roundtrip_deps_L2", "check_group_L2", "check_grid_L2", "check_gbs_L2",
                  "check_dag_deps_L2"]
        tmo = 400
    return [xhrun.run("xh/c04_reorder.py", checks, ["twin_roundtrip", "twin_group", "twin_grid", "twin_gbs", "twin_dag"], tmo, ctx.prop)]
