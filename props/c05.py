"""C05: operations act only on their target modes"""
from . import phase_harness as PH


def build(ctx):
    PH.jobs(ctx, "spectators")
