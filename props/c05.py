"""C05: operations act only on their target modes"""
from . import phase_harness as PH
from . import fock_harness as FH


def build(ctx):
    PH.jobs(ctx, "spectators")
    # Fock: the result of every gate/channel/preparation equals (operator on the targets) (x) identity on the rest,
    # for an arbitrary operator and an arbitrary state, and a unitary leaves the other modes' reduced state unchanged
    FH.jobs(ctx)
