"""C06: measurements sample from the Born distribution, leave the conditional state, report per mode"""
import itertools
import numpy as np

from symx import fn
from symx.symarray import sarray
from . import common as C
from . import fock_harness as FH
from . import phase_harness as PH


def _frontend_modules():
    import strawberryfields.ops as ops
    import strawberryfields.engine as engine
    return [ops, engine]


def ref_condition(mu, V, m, sigma, outcome):
    """general-dyne on mode m with measurement covariance sigma and outcome (2-vector): Schur-complement update.
    returns (mu', V') with the measured mode reset to vacuum (hbar=2: identity block, zero mean)"""
    n2 = len(mu)
    B = [2 * m, 2 * m + 1]
    A = [i for i in range(n2) if i not in B]
    VAA, VAB, VBB = V[np.ix_(A, A)], V[np.ix_(A, B)], V[np.ix_(B, B)]
    K = fn.inv(VBB + sigma)
    V2 = fn.eye(n2, V)
    mu2 = fn.zeros((n2,), V)
    VA2 = VAA - VAB @ K @ VAB.T
    muA2 = mu[A] + VAB @ K @ (outcome - mu[B])
    for a, ia in enumerate(A):
        mu2[ia] = muA2[a]
        for b, ib in enumerate(A):
            V2[ia, ib] = VA2[a, b]
    return mu2, V2


def rotated(N, M, a, phi, m):
    A_, B_, d_ = C.spec("rotation", (phi,), (m,), len(a), N)
    return C.bogoliubov_nm(N, M, a, A_, B_, d_)


def rng_recorder(g, log, outcome):
    """np.random stubs that record their arguments and return the given symbolic outcome"""
    def mvn(mean, cov, size=None):
        log.append(("multivariate_normal", mean, cov))
        o = sarray([outcome]) if g.sym else np.array([outcome])
        return o if size is not None else o[0]

    def normal(loc=0.0, scale=1.0, size=None):
        log.append(("normal", loc, scale))
        return outcome[1]
    g.random_handler("multivariate_normal", mvn)
    g.random_handler("normal", normal)


def h_gauss_homodyne(g, m, n, select):
    """GaussianBackend.measure_homodyne: arguments handed to the sampler (Born rule) and conditional state"""
    be = C.gauss_backend(g, n)
    N0, M0, a0 = C.gauss_snapshot(be)
    phi = g.real("phi")
    eps = g.real("eps", lo=0, lo_strict=True)
    ox, op_ = g.real("out_x"), g.real("out_p")
    log = []
    rng_recorder(g, log, [ox, op_])
    if select:
        res = be.measure_homodyne(phi, m, select=ox / 2 * 2, eps=eps) if False else be.measure_homodyne(phi, m, select=ox, eps=eps)
    else:
        res = be.measure_homodyne(phi, m, eps=eps)
    # reference: rotate by -phi, then general-dyne with sigma = diag(eps^2, 1/eps^2)
    Nr, Mr, ar = rotated(N0, M0, a0, -phi, m)
    mu, V = C.nm_to_phase(Nr, Mr, ar)
    sigma = fn.zeros((2, 2), V)
    sigma[0, 0] = eps * eps + 0 * sigma[0, 0]
    sigma[1, 1] = 1 / (eps * eps) + 0 * sigma[1, 1]
    B = [2 * m, 2 * m + 1]
    if not select:
        g.fact("one draw from multivariate_normal", len(log) == 1 and log[0][0] == "multivariate_normal")
        g.eq("born.mean", log[0][1], mu[B])
        g.eq("born.cov", log[0][2], V[np.ix_(B, B)] + sigma)
        outcome = fn.asarr([ox, op_], V)
        g.eq("returned", res[0, 0], ox)        # hbar_backend = 2: qs*sqrt(2*2)/2 = qs
    else:
        # documented: select is the outcome in hbar-free units x*sqrt(2 hbar_b)/2 -> backend value val = select*2/sqrt(2*2)
        g.fact("p-quadrature drawn from a normal", len(log) == 1 and log[0][0] == "normal")
        g.eq("select.p.mean", log[0][1], mu[B[1]])
        g.eq("select.p.std^2", log[0][2] * log[0][2], V[B[1], B[1]])
        outcome = fn.asarr([ox, op_], V)
        g.eq("returned", res[0, 0], ox)
    mu2, V2 = ref_condition(mu, V, m, sigma, outcome)
    c = be.circuit
    mu1, V1 = C.nm_to_phase(c.nmat, c.mmat, c.mean)
    g.eq("conditional.mean", mu1, mu2)
    g.eq("conditional.cov", V1, V2)


def h_gauss_heterodyne(g, m, n, select):
    be = C.gauss_backend(g, n)
    N0, M0, a0 = C.gauss_snapshot(be)
    ox, op_ = g.real("out_x"), g.real("out_p")
    log = []
    rng_recorder(g, log, [ox, op_])
    mu, V = C.nm_to_phase(N0, M0, a0)
    sigma = fn.eye(2, V)
    B = [2 * m, 2 * m + 1]
    if select:
        alpha = (ox + 1j * op_) / 2            # alpha = (x + i p)/2 at hbar = 2
        res = be.measure_heterodyne(m, select=alpha)
        g.fact("no random draw", len(log) == 0)
        g.eq("returned", res[0, 0], alpha)
    else:
        res = be.measure_heterodyne(m)
        g.fact("one draw from multivariate_normal", len(log) == 1)
        g.eq("born.mean", log[0][1], mu[B])
        g.eq("born.cov", log[0][2], V[np.ix_(B, B)] + sigma)
        g.eq("returned", res[0, 0], (ox + 1j * op_) / 2)
    mu2, V2 = ref_condition(mu, V, m, sigma, fn.asarr([ox, op_], V))
    c = be.circuit
    mu1, V1 = C.nm_to_phase(c.nmat, c.mmat, c.mean)
    g.eq("conditional.mean", mu1, mu2)
    g.eq("conditional.cov", V1, V2)


def h_cross_heterodyne(g, m, n):
    """the same post-selected heterodyne outcome gives the same conditional state on the Gaussian and the
    (single-peak) bosonic backend"""
    gb = C.gauss_backend(g, n)
    mu, V = C.nm_to_phase(*C.gauss_snapshot(gb))
    bb = C.bosonic_backend(g, n, J=1, name="b")
    # same state on the bosonic backend
    if g.sym:
        bb.circuit.means = sarray([np.asarray(mu.view(np.ndarray))])
        bb.circuit.covs = sarray([np.asarray(V.view(np.ndarray))])
        bb.circuit.weights = sarray([1])
    else:
        bb.circuit.means = np.array([mu], dtype=complex)
        bb.circuit.covs = np.array([V], dtype=complex)
        bb.circuit.weights = np.array([1.0 + 0j])
    alpha = g.complex("alpha")
    gb.measure_heterodyne(m, select=alpha)
    bb.measure_heterodyne(m, select=alpha)
    c = gb.circuit
    mu1, V1 = C.nm_to_phase(c.nmat, c.mmat, c.mean)
    g.eq("conditional.mean", bb.circuit.means[0], mu1)
    g.eq("conditional.cov", bb.circuit.covs[0], V1)


def h_bosonic_select(g, m, n, kind, J):
    """BosonicBackend post-selected general-dyne: conditional means/covs per peak and reweighting"""
    be = C.bosonic_backend(g, n, J=J, real_means=True)
    w0, m0, c0 = C.bosonic_snapshot(be)
    B = [2 * m, 2 * m + 1]
    if kind == "heterodyne":
        ox, op_ = g.real("out_x"), g.real("out_p")
        # outcome alpha corresponds to the phase-space point (2 Re alpha, 2 Im alpha) at hbar = 2
        alpha = (ox + 1j * op_) / 2
        be.measure_heterodyne(m, select=alpha)
        sigma = fn.eye(2, c0[0])
        outcome = fn.asarr([ox, op_], c0[0])
        means_in = m0
        covs_in = c0
    else:
        ox = g.real("out_x")
        be.measure_homodyne(0 * ox, m, select=ox)
        eps = 0.0002
        sigma = fn.zeros((2, 2), c0[0])
        sigma[0, 0] = eps ** 2 + 0 * sigma[0, 0]
        sigma[1, 1] = 1 / eps ** 2 + 0 * sigma[1, 1]
        outcome = fn.asarr([ox, 0 * ox], c0[0])
        means_in, covs_in = m0, c0
    c = be.circuit
    for j in range(J):
        mu2, V2 = ref_condition(means_in[j], covs_in[j], m, sigma, outcome)
        g.eq("peak%d.mean" % j, c.means[j], mu2)
        g.eq("peak%d.cov" % j, c.covs[j], V2)
    if J == 1:
        g.eq("weight", c.weights[0], 1 + 0 * w0[0])
    else:
        g.eq("weights.sum", sum(c.weights), 1 + 0 * w0[0])


def h_fock_measure(g, modes, n, D, pure, index):
    """Circuit.measure_fock: the distribution handed to the sampler is the diagonal of the reduced state in ascending
    mode order; the reported outcome is per listed mode; the post-state is the projected, renormalised state"""
    c = FH.fock_circuit(g, n, D, pure)
    from strawberryfields.backends.fockbackend import ops as fo
    s0 = c._state.copy()
    rho0 = fo.mix(s0, n) if pure else s0
    log = []

    def choice(a, size=None, replace=True, p=None):
        log.append((list(a), p))
        return index
    g.random_handler("choice", choice)
    # a physical state has unit trace
    tr = FH.ref_partial_trace(rho0, n, D, list(range(n)))
    g.assume(fn.real(tr) == 1 if g.sym else abs(tr - 1) < 1e-9)
    try:
        out = c.measure_fock(list(modes))
    except ZeroDivisionError:
        # the stub forced an outcome that has probability zero on this path
        g.fact("zero-probability outcome is refused", True)
        return
    g.fact("one call to choice", len(log) == 1)
    asc = sorted(modes)
    k = len(modes)
    # reference distribution: diagonal of the reduced state of the measured modes, ascending mode order
    probs = []
    for occ in itertools.product(range(D), repeat=k):
        tot = 0
        for rest in itertools.product(range(D), repeat=n - k):
            full = [None] * n
            it = iter(rest)
            for i in range(n):
                full[i] = occ[asc.index(i)] if i in asc else next(it)
            idx = tuple(x for v in full for x in (v, v))
            tot = tot + rho0[idx]
        probs.append(fn.real(tot))
    p = log[0][1]
    g.eq("born.p", p, fn.asarr(probs, rho0))
    occ = list(itertools.product(range(D), repeat=k))[index]
    expected = [occ[asc.index(mm)] for mm in modes]
    g.fact("reported outcome is per listed mode", [int(x) for x in out[0]] == expected, detail="%r vs %r" % (out, expected))
    # conditional state: project measured modes on the outcome, reset them to vacuum, renormalise
    got = c._state if not c._pure else fo.mix(c._state, n)
    ref = fn.zeros((D,) * (2 * n), rho0)
    for idx in itertools.product(range(D), repeat=2 * n):
        if any(idx[2 * mm] != 0 or idx[2 * mm + 1] != 0 for mm in modes):
            continue
        src = list(idx)
        for mm, v in zip(asc, occ):
            src[2 * mm], src[2 * mm + 1] = v, v
        ref[idx] = rho0[tuple(src)]
    g.eq("conditional", got * probs[index], ref)


def engine_on(g, be):
    """a LocalEngine whose backend is the given (symbolic) backend object"""
    import strawberryfields as sf
    eng = sf.LocalEngine("gaussian")
    eng.backend = be
    eng._init_backend = lambda n: None
    return eng


def h_collation(g, order, n):
    """Engine.run with homodyne measurements issued in the given order: one row per shot, column j = outcome of the
    j-th smallest measured mode; every register holds its own outcome; MeasureHomodyne scaling at hbar = 2"""
    import strawberryfields as sf
    from strawberryfields import ops
    be = C.gauss_backend(g, n)
    outs = [[g.real("o%d_x" % k), g.real("o%d_p" % k)] for k in range(len(order))]
    calls = []

    def mvn(mean, cov, size=None):
        k = len(calls)
        calls.append(k)
        o = sarray([outs[k]]) if g.sym else np.array([outs[k]])
        return o if size is not None else o[0]
    g.random_handler("multivariate_normal", mvn)
    prog = sf.Program(n)
    with prog.context as q:
        for m in order:
            ops.MeasureX | q[m]
    eng = engine_on(g, be)
    res = eng.run(prog, modes=[])
    samples = res.samples
    g.fact("one row per shot, one column per measured mode", tuple(np.shape(samples)) == (1, len(order)),
           detail=repr(np.shape(samples)))
    asc = sorted(order)
    for j, m in enumerate(asc):
        k = order.index(m)
        g.eq("samples[0,%d] is the outcome of mode %d" % (j, m), samples[0][j], outs[k][0])
        g.eq("q[%d].val" % m, eng.run_progs[-1].reg_refs[m].val, outs[k][0])
        g.eq("samples_dict[%d]" % m, res.samples_dict[m][0], outs[k][0])


def build(ctx):
    import itertools as _it
    ncol = 3
    for r_ in (2, 3):
        for order in _it.permutations(range(ncol), r_):
            if not ctx.thorough and r_ == 3 and order not in ((2, 0, 1), (1, 2, 0), (2, 1, 0)):
                continue
            ctx.add("collation%s" % (list(order),), h_collation, {"order": list(order), "n": ncol},
                    modules=lambda: C.gauss_modules() + _frontend_modules(),
                    functions=["LocalEngine.run", "BaseEngine._run", "LocalEngine._run_program", "LocalEngine._combine_and_sort_samples",
                               "Measurement.apply", "MeasureHomodyne._apply", "GaussianBackend.measure_homodyne"],
                    bounds={"modes": ncol, "measurement_order": list(order), "shots": 1})
    n = 2 if not ctx.thorough else 3
    gm = C.gauss_modules
    for m in range(n):
        for select in (False, True):
            ctx.add("gaussian.homodyne[%d].%s" % (m, "select" if select else "sample"), h_gauss_homodyne,
                    {"m": m, "n": n, "select": select}, modules=gm,
                    functions=["GaussianBackend.measure_homodyne", "GaussianModes.homodyne", "GaussianModes.measure_dyne",
                               "GaussianModes.post_select_homodyne", "gaussianbackend.ops.*", "GaussianModes.scovmat/fromscovmat"],
                    bounds={"modes": n, "measured": m, "eps": "symbolic > 0", "angle": "symbolic"})
            ctx.add("gaussian.heterodyne[%d].%s" % (m, "select" if select else "sample"), h_gauss_heterodyne,
                    {"m": m, "n": n, "select": select}, modules=gm,
                    functions=["GaussianBackend.measure_heterodyne", "GaussianModes.measure_dyne", "GaussianModes.post_select_heterodyne"],
                    bounds={"modes": n, "measured": m})
        ctx.add("cross.heterodyne.select[%d]" % m, h_cross_heterodyne, {"m": m, "n": n},
                modules=lambda: C.gauss_modules() + C.bosonic_modules(),
                functions=["GaussianBackend.measure_heterodyne", "BosonicBackend.measure_heterodyne", "BosonicModes.post_select_heterodyne",
                           "BosonicModes.post_select_generaldyne", "bosonicbackend.ops.*"],
                bounds={"modes": n, "measured": m, "peaks": 1})
        for kind in ("heterodyne", "homodyne"):
            ctx.add("bosonic.%s.select[%d].J1" % (kind, m), h_bosonic_select, {"m": m, "n": n, "kind": kind, "J": 1},
                    modules=C.bosonic_modules,
                    functions=["BosonicBackend.measure_%s" % kind, "BosonicModes.post_select_generaldyne", "bosonicbackend.ops.*"],
                    bounds={"modes": n, "measured": m, "peaks": 1})
    nf, D = 3, 2
    for pure in (True, False):
        subsets = [(0,), (2,), (0, 1), (1, 0), (2, 0), (1, 2), (2, 0, 1), (1, 2, 0)] if not ctx.thorough else \
            [s for r in (1, 2, 3) for s in itertools.permutations(range(nf), r)]
        for modes in subsets:
            for index in range(D ** len(modes)):
                if not ctx.thorough and len(modes) == 3 and index not in (1, 3, 6):
                    continue        # outcomes that distinguish the three modes
                ctx.add("fock.measure_fock%s.%s.outcome%d" % (list(modes), "pure" if pure else "mixed", index), h_fock_measure,
                        {"modes": list(modes), "n": nf, "D": D, "pure": pure, "index": index}, modules=C.fock_modules,
                        functions=["Circuit.measure_fock", "fockbackend.ops.partial_trace", "fockbackend.ops.diagonal",
                                   "fockbackend.ops.unIndex", "fockbackend.ops.project_reset", "Circuit.norm"],
                        bounds={"modes": nf, "cutoff": D, "measured": list(modes), "outcome_index": index})
