"""C07: physicality and conservation"""
from . import phase_harness as PH
from . import fock_harness as FH
from . import fockgates as FG
from . import common as C


def build(ctx):
    PH.jobs(ctx, "physical")
    FG.jobs(ctx, only=("loss_channel", "thermal_state"))
    n, D = 3, 2
    for pure in (True, False):
        for k in range(n):
            ctx.add("fock.unitary_spectators[%d].%s" % (k, "pure" if pure else "mixed"), FH.h_unitary_spectators,
                    {"k": k, "n": n, "D": D, "pure": pure}, modules=C.fock_modules,
                    functions=["Circuit.apply_gate_BLAS", "fockbackend.ops.partial_trace", "fockbackend.ops.trace"],
                    bounds={"modes": n, "cutoff": D, "gate": "arbitrary U(2)"})
    ctx.add("fock.mix", FH.h_mix, {"n": n, "D": D}, modules=C.fock_modules, functions=["fockbackend.ops.mix"],
            bounds={"modes": n, "cutoff": D})
    for modes in C.ordered_choices(n, 2)[:3]:
        for rule in ("BS", "S2"):
            ctx.add("fock.twomode_%s%s.mixed" % (rule, list(modes)), FH.h_twomode_sel,
                    {"modes": list(modes), "n": n, "D": D, "pure": False, "rule": rule}, modules=C.fock_modules,
                    functions=["Circuit.apply_twomode_gate"], bounds={"modes": n, "cutoff": D})
