"""C07: physicality and conservation"""
from . import phase_harness as PH


def build(ctx):
    PH.jobs(ctx, "physical")
