"""C08: program register and simulator agree on which modes exist (inductive step from an arbitrary valid history state)"""
import itertools
import numpy as np

from symx import fn
from symx.symarray import sarray
from . import common as C
from . import fock_harness as FH


def mods():
    import strawberryfields.ops as ops
    import strawberryfields.engine as engine
    import strawberryfields.backends.states as st
    return C.gauss_modules() + C.bosonic_modules() + C.fock_modules() + [ops, engine, st]


def make_engine(kind):
    import strawberryfields as sf
    if kind == "fock":
        return sf.LocalEngine("fock", backend_options={"cutoff_dim": 2, "pure": False})
    if kind == "bosonic":
        return sf.BosonicEngine("bosonic") if hasattr(sf, "BosonicEngine") else sf.Engine("bosonic")
    return sf.LocalEngine("gaussian")


def inject(g, eng, kind, active, K):
    """replace the data of the active modes by symbols; returns per-mode reference data (in the backend's own terms)"""
    be = eng.backend
    m = len(active)
    if kind == "gaussian":
        c = be.circuit
        N, M, a = g.herm("N", m), g.csymm("M", m), g.cvec("a", m)
        for x, i in enumerate(active):
            c.mean[i] = a[x]
            for y, j in enumerate(active):
                c.nmat[i, j] = N[x, y]
                c.mmat[i, j] = M[x, y]
        if g.sym:
            c.nmat, c.mmat, c.mean = sarray(c.nmat), sarray(c.mmat), sarray(c.mean)
        mu, V = C.nm_to_phase(N, M, a)      # xpxp over the active modes, position x <-> mode active[x]
        return mu, V
    if kind == "bosonic":
        c = be.circuit
        mu = g.rvec("mu", 2 * m)
        V = g.rsymm("V", 2 * m)
        if g.sym:
            c.means, c.covs, c.weights = sarray(c.means), sarray(c.covs), sarray(c.weights)
        for x, i in enumerate(active):
            for qx in (0, 1):
                c.means[0, 2 * i + qx] = mu[2 * x + qx]
                for y, j in enumerate(active):
                    for qy in (0, 1):
                        c.covs[0, 2 * i + qx, 2 * j + qy] = V[2 * x + qx, 2 * y + qy]
        return mu, V
    if kind == "fock":
        rho = FH.herm_tensor(g, "rho", m, 2) if m else None
        if m:
            be.circuit._state = rho
            be.circuit._pure = False
        return rho, None
    raise KeyError(kind)


def check_state(g, label, st, kind, expected_active, data, active0, touched=()):
    """the returned state has exactly the expected modes, in index order, named after their indices, and the modes
    that the step did not touch carry the data that was put into them"""
    k = len(expected_active)
    g.fact(label + ".num_modes", st.num_modes == k, detail="%r vs %r" % (st.num_modes, k))
    g.fact(label + ".mode_names", [st._modemap[i] for i in range(k)] == ["q[%d]" % i for i in expected_active],
           detail=repr(st._modemap))
    keep = [i for i in expected_active if i in active0 and i not in touched]
    if kind == "gaussian":
        mu, V = data
        M, S = st.means(), st.cov()
        for i in keep:
            a, x = expected_active.index(i), active0.index(i)
            g.eq(label + ".means[q%d]" % i, [M[a], M[a + k]], [mu[2 * x], mu[2 * x + 1]])
            for j in keep:
                b, y = expected_active.index(j), active0.index(j)
                g.eq(label + ".cov[q%d,q%d]" % (i, j), [S[a, b], S[a, b + k], S[a + k, b], S[a + k, b + k]],
                     [V[2 * x, 2 * y], V[2 * x, 2 * y + 1], V[2 * x + 1, 2 * y], V[2 * x + 1, 2 * y + 1]])
    elif kind == "bosonic":
        mu, V = data
        M, S = st.means()[0], st.covs()[0]
        for i in keep:
            a, x = expected_active.index(i), active0.index(i)
            g.eq(label + ".means[q%d]" % i, [M[2 * a], M[2 * a + 1]], [mu[2 * x], mu[2 * x + 1]])
            for j in keep:
                b, y = expected_active.index(j), active0.index(j)
                g.eq(label + ".cov[q%d,q%d]" % (i, j), S[np.ix_([2 * a, 2 * a + 1], [2 * b, 2 * b + 1])],
                     V[np.ix_([2 * x, 2 * x + 1], [2 * y, 2 * y + 1])])
    elif kind == "fock":
        rho = data[0]
        if rho is None or not keep:
            return
        m0 = len(active0)
        ref = FH.ref_partial_trace(rho, m0, 2, [x for x, i in enumerate(active0) if i not in keep])
        got = st.reduced_dm([expected_active.index(i) for i in keep]) if len(keep) < k else st.dm()
        g.eq(label + ".reduced_dm%s" % keep, got, ref)


def h_step(g, kind, K, a, step):
    """pre-state: register of K indices with activity vector a (built by the real New/Del path, data replaced by
    symbols); then one step in a second program segment on the same engine"""
    import strawberryfields as sf
    from strawberryfields import ops
    from strawberryfields.program_utils import RegRefError
    eng = make_engine(kind)
    p1 = sf.Program(K)
    dead = [i for i in range(K) if not a[i]]
    with p1.context as q:
        for i in dead:
            ops.Del | q[i]
    eng.run(p1)
    active0 = [i for i in range(K) if a[i]]
    g.fact("base.get_modes", list(eng.backend.get_modes()) == active0, detail=repr(eng.backend.get_modes()))
    data = inject(g, eng, kind, active0, K)
    p2 = sf.Program(p1)
    g.fact("segment.register", [r.ind for r in p2.register] == active0 and p2.num_subsystems == len(active0))
    name = step[0]
    expected = list(active0)
    touched = ()
    raised = None
    try:
        with p2.context as q:
            if name == "none":
                pass
            elif name == "new":
                newregs = ops.New(step[1])
                expected = active0 + list(range(K, K + step[1]))
                g.fact("new indices continue the count", [r.ind for r in newregs] == list(range(K, K + step[1])))
            elif name == "del":
                ops.Del | q[active0.index(step[1])]
                expected = [i for i in active0 if i != step[1]]
            elif name == "del2":
                ops.Del | (q[active0.index(step[1])], q[active0.index(step[2])])
                expected = [i for i in active0 if i not in (step[1], step[2])]
            elif name == "gate1":
                ops.Rgate(g.real("theta")) | q[active0.index(step[1])]
                touched = (step[1],)
            elif name == "gate2":
                ops.BSgate(g.real("theta"), g.real("phi")) | (q[active0.index(step[1])], q[active0.index(step[2])])
                touched = (step[1], step[2])
                if kind == "fock":
                    # a beamsplitter matrix cut off at D is not unitary on the truncated space, so on the ARBITRARY
                    # symbolic state used here the spectators' reduced states change by truncation alone (they do not
                    # on states inside the cutoff); that is no bookkeeping matter: only indices, labels and shapes are
                    # asserted for this step on the Fock backend (the spectator data check for Fock gates is C05's,
                    # with the gate tensor restricted by its selection rule)
                    touched = tuple(active0)
            elif name == "use_deleted":
                # the RegRef of a deleted mode, taken from the first segment
                ops.Rgate(0.3) | p1.reg_refs[step[1]]
            elif name == "del_then_use":
                r = q[active0.index(step[1])]
                ops.Del | r
                ops.Rgate(0.3) | r
            elif name == "duplicate":
                r = q[active0.index(step[1])]
                ops.BSgate(0.3, 0.1) | (r, r)
            else:
                raise KeyError(name)
    except RegRefError as e:
        raised = e
    if name in ("use_deleted", "del_then_use", "duplicate"):
        g.fact("invalid target rejected with RegRefError", raised is not None)
        return
    g.fact("no error", raised is None, detail=repr(raised))
    try:
        res = eng.run(p2)
    except (UnboundLocalError, IndexError, KeyError, AttributeError, TypeError, ValueError) as e:
        g.fact("engine run raised %s" % type(e).__name__, False, detail=str(e))
        return
    g.fact("program register", [r.ind for r in p2.register] == expected, detail=repr([r.ind for r in p2.register]))
    g.fact("backend.get_modes", list(eng.backend.get_modes()) == expected, detail=repr(eng.backend.get_modes()))
    check_state(g, "state", res.state, kind, expected, data, active0, touched)


def h_backend_reject(g, kind, K, a, mode):
    """the backend API itself refuses a deleted or never created index and leaves the state alone"""
    import strawberryfields as sf
    from strawberryfields import ops
    eng = make_engine(kind)
    p1 = sf.Program(K)
    dead = [i for i in range(K) if not a[i]]
    with p1.context as q:
        for i in dead:
            ops.Del | q[i]
    eng.run(p1)
    active0 = [i for i in range(K) if a[i]]
    data = inject(g, eng, kind, active0, K)
    be = eng.backend
    err = None
    try:
        be.rotation(0.3, mode)
    except (ValueError, IndexError, TypeError) as e:
        err = e
    g.fact("rotation on invalid mode %d raises" % mode, err is not None)
    err = None
    try:
        be.del_mode(mode)
    except (ValueError, IndexError, TypeError) as e:
        err = e
    g.fact("del_mode on invalid mode %d raises" % mode, err is not None)
    st = be.state()
    check_state(g, "state_after_rejected_calls", st, kind, active0, data, active0)


def activity_vectors(K):
    return [a for a in itertools.product((1, 0), repeat=K) if sum(a) >= 1]


def build(ctx):
    kinds = ("gaussian", "bosonic", "fock")
    Ks = (2, 3) if not ctx.thorough else (2, 3, 4)
    # one four-mode register in the quick tier too: deleting two modes at once needs a survivor above the second one
    extra4 = [] if ctx.thorough else [(4, (1, 1, 1, 1))]
    fns = ["Program.__init__(prev)", "Program._add_subsystems", "Program._delete_subsystems", "ops._New_modes", "ops._Delete",
           "BaseEngine._run", "LocalEngine._run_program", "GaussianBackend.{add_mode,del_mode,get_modes,state}",
           "BosonicBackend.{add_mode,del_mode,get_modes,state}", "FockBackend.{add_mode,del_mode,get_modes,state,_remap_modes}", "ModeMap.*"]
    for kind in kinds:
        for K, a in [(K, a) for K in Ks for a in activity_vectors(K)] + extra4:
            if True:
                act = [i for i in range(K) if a[i]]
                dead = [i for i in range(K) if not a[i]]
                steps = [("none",), ("new", 1), ("new", 2)]
                steps += [("del", i) for i in act if len(act) > 1]
                steps += [("gate1", i) for i in act]
                steps += [("gate2", i, j) for i, j in itertools.permutations(act, 2)][:2]
                steps += [("use_deleted", i) for i in dead[:1]]
                steps += [("del_then_use", act[0]), ("duplicate", act[-1])]
                if not ctx.thorough and K == 3:
                    steps = [s for s in steps if s[0] in ("none", "new", "del", "gate1", "use_deleted")]
                if not ctx.thorough and K == 4:
                    steps = [("none",)]
                for step in steps:
                    ctx.add("%s.K%d.a%s.%s" % (kind, K, "".join(map(str, a)), "_".join(map(str, step))), h_step,
                            {"kind": kind, "K": K, "a": list(a), "step": list(step)}, modules=mods, functions=fns,
                            bounds={"backend": kind, "register_indices": K, "activity": list(a), "step": list(step)},
                            validate_points=1)
                if K >= 3 and len(act) >= 3:
                    for (i, j) in [(act[0], act[2]), (act[2], act[0]), (act[0], act[1])]:
                        ctx.add("%s.K%d.a%s.del2_%d_%d" % (kind, K, "".join(map(str, a)), i, j), h_step,
                                {"kind": kind, "K": K, "a": list(a), "step": ["del2", i, j]}, modules=mods, functions=fns,
                                bounds={"backend": kind, "register_indices": K, "activity": list(a), "step": ["del2", i, j]},
                                validate_points=1)
                for mode in dead[:1] + [K]:
                    ctx.add("%s.K%d.a%s.backend_reject_%d" % (kind, K, "".join(map(str, a)), mode), h_backend_reject,
                            {"kind": kind, "K": K, "a": list(a), "mode": mode}, modules=mods, functions=fns,
                            bounds={"backend": kind, "register_indices": K, "activity": list(a), "invalid_mode": mode},
                            validate_points=1)
