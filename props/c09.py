"""C09: running is compositional and free of side effects on its inputs"""
import itertools
import numpy as np

from symx import fn
from symx.symarray import sarray
from . import common as C
from . import frontend as F
from . import c03


def mods():
    import strawberryfields.ops as ops
    import strawberryfields.engine as engine
    import strawberryfields.program as program
    import strawberryfields.backends.states as st
    return C.gauss_modules() + [ops, engine, program, st]


# command templates: name -> function(ops, v, q) adding the command inside a program context
def alphabet():
    A = {}
    A["R0"] = lambda o, v, q: o.Rgate(v("theta")) | q[0]
    A["R.H1"] = lambda o, v, q: o.Rgate(v("theta")).H | q[1]
    A["S0"] = lambda o, v, q: o.Sgate(v("r"), v("phi")) | q[0]
    A["D1"] = lambda o, v, q: o.Dgate(v("x")) | q[1]
    A["X0"] = lambda o, v, q: o.Xgate(v("x")) | q[0]
    A["BS01"] = lambda o, v, q: o.BSgate(v("theta"), v("phi")) | (q[0], q[1])
    A["BS.H10"] = lambda o, v, q: o.BSgate(v("theta"), v("phi")).H | (q[1], q[0])
    A["MZ.H01"] = lambda o, v, q: o.MZgate(v("phi_in"), v("phi_ex")).H | (q[0], q[1])
    A["Loss0"] = lambda o, v, q: o.LossChannel(v("T", lo=0, hi=1)) | q[0]
    A["Vac1"] = lambda o, v, q: o.Vacuum() | q[1]
    A["MeasX1"] = lambda o, v, q: o.MeasureX | q[1]
    A["R(q1)0"] = lambda o, v, q: o.Rgate(q[1].par) | q[0]
    return A


def snapshot(prog):
    return [(c, c.op, list(c.op.p), getattr(c.op, "dagger", None), list(c.reg)) for c in prog.circuit]


def unchanged(prog, snap):
    if len(prog.circuit) != len(snap):
        return False
    for c, (c0, op, p, dag, reg) in zip(prog.circuit, snap):
        if c is not c0 or c.op is not op or len(c.op.p) != len(p) or any(x is not y for x, y in zip(c.op.p, p)):
            return False
        if getattr(c.op, "dagger", None) != dag or list(c.reg) != reg:
            return False
    return True


def repoint(prog):
    """MeasuredParameter objects are sympy Symbols cached by name: q[1].par of every program is ONE object whose
    .regref is the register of whichever program created it last (recorded as a known finding under C10).  So that
    this harness can compare several programs built from the same template, the shared object is pointed back at the
    registers of the program about to run."""
    from strawberryfields.parameters import MeasuredParameter
    import sympy
    for cmd in prog.circuit:
        for par in cmd.op.p:
            if isinstance(par, sympy.Basic):
                for atom in par.atoms(MeasuredParameter):
                    atom.regref = prog.reg_refs[atom.regref.ind]


def make_engine(g, base):
    """LocalEngine('gaussian') whose backend starts from a copy of the symbolic base state instead of vacuum"""
    import strawberryfields as sf
    eng = sf.LocalEngine("gaussian")

    def init(n, eng=eng):
        eng.backend.begin_circuit(n)
        cl = c03.clone_gauss(base)
        eng.backend.circuit = cl.circuit
    eng._init_backend = init
    return eng


def h_compose(g, seq, cut, nmodes):
    """run([p1, p2]) == run(p1); run(p2) == run(concatenation); reset == fresh; programs untouched"""
    import strawberryfields as sf
    from strawberryfields import ops
    A = alphabet()
    base = C.gauss_backend(g, nmodes)
    vals = {}

    def valmaker(pos):
        def v(nm, **kw):
            key = "c%d_%s" % (pos, nm)
            if key not in vals:
                vals[key] = g.real(key, **kw)
            return vals[key]
        return v
    p1 = sf.Program(nmodes)
    with p1.context as q:
        for pos, name in enumerate(seq[:cut]):
            A[name](ops, valmaker(pos), q)
    p2 = sf.Program(p1)
    with p2.context as q:
        for pos, name in enumerate(seq[cut:], start=cut):
            A[name](ops, valmaker(pos), q)
    pc = sf.Program(nmodes)
    with pc.context as q:
        for pos, name in enumerate(seq):
            A[name](ops, valmaker(pos), q)
    snaps = [snapshot(p) for p in (p1, p2, pc)]
    outcomes = []
    calls = [0]

    def mvn(mean, cov, size=None):
        k = calls[0]
        calls[0] += 1
        while len(outcomes) <= k:
            outcomes.append([g.real("m%d_x" % len(outcomes)), g.real("m%d_p" % len(outcomes))])
        o = sarray([outcomes[k]]) if g.sym else np.array([outcomes[k]])
        return o if size is not None else o[0]
    g.random_handler("multivariate_normal", mvn)

    def final(eng):
        c = eng.backend.circuit
        return c.nmat.copy(), c.mmat.copy(), c.mean.copy()
    # A: both segments in one call
    calls[0] = 0
    engA = make_engine(g, base)
    # (the list form cannot be re-pointed between its segments: build the segments so that at most one of them uses
    # the measured parameter -- true for every template here)
    repoint(p1)
    repoint(p2)
    from strawberryfields.parameters import ParameterError
    try:
        engA.run([p1, p2], modes=[])
    except ParameterError as e:
        g.fact("run([p1, p2]) does not raise ParameterError", False, detail=str(e))
        return
    sA = final(engA)
    g.fact("programs untouched after run([p1,p2])", unchanged(p1, snaps[0]) and unchanged(p2, snaps[1]))
    # B: two successive calls on a fresh engine, with the same program objects (running again gives the same result)
    calls[0] = 0
    engB = make_engine(g, base)
    repoint(p1)
    engB.run(p1, modes=[])
    repoint(p2)
    engB.run(p2, modes=[])
    sB = final(engB)
    F.eq_gauss_state(g, "two calls == one call", sB, sA)
    # C: one concatenated program
    calls[0] = 0
    engC = make_engine(g, base)
    repoint(pc)
    engC.run(pc, modes=[])
    sC = final(engC)
    F.eq_gauss_state(g, "concatenated == segments", sC, sA)
    # D: reset, then run: like a fresh engine
    calls[0] = 0
    engB.reset()
    g.fact("reset clears the run history", engB.run_progs == [] and engB.samples is None)
    repoint(pc)
    engB.run(pc, modes=[])
    F.eq_gauss_state(g, "after reset == fresh engine", final(engB), sC)
    g.fact("programs untouched after all runs", all(unchanged(p, s) for p, s in zip((p1, p2, pc), snaps)))
    g.fact("registers untouched", p1.num_subsystems == nmodes and pc.num_subsystems == nmodes and
           [r.ind for r in pc.register] == list(range(nmodes)))


def h_compile_untouched(g, seq, compiler, nmodes, optimize=False):
    """compile() for a target leaves the source program alone and compiling twice gives equal circuits"""
    import strawberryfields as sf
    from strawberryfields import ops
    from strawberryfields.program_utils import CircuitError
    A = alphabet()
    prog = sf.Program(nmodes)
    with prog.context as q:
        for pos, name in enumerate(seq):
            A[name](ops, lambda nm, pos=pos, **kw: g.real("c%d_%s" % (pos, nm), **kw), q)
    snap = snapshot(prog)
    try:
        c1 = prog.compile(compiler=compiler, optimize=optimize)
        c2 = prog.compile(compiler=compiler, optimize=optimize)
    except CircuitError:
        g.fact("CircuitError leaves the program alone", unchanged(prog, snap))
        return
    g.fact("source untouched by compile(%s)" % compiler, unchanged(prog, snap))
    g.fact("compiling twice gives the same circuit",
           len(c1.circuit) == len(c2.circuit) and all(type(a.op) is type(b.op) and [r.ind for r in a.reg] == [r.ind for r in b.reg]
                                                       and getattr(a.op, "dagger", None) == getattr(b.op, "dagger", None)
                                                       for a, b in zip(c1.circuit, c2.circuit)))
    if compiler == "gaussian":
        be1 = C.gauss_backend(g, nmodes)
        be2 = c03.clone_gauss(be1)
        F.apply_cmds(c1.circuit, be1)
        F.apply_cmds(c2.circuit, be2)
        F.eq_gauss_state(g, "second compilation acts like the first", F.gauss_final(be2), F.gauss_final(be1))


def h_compose_bosonic(g, seq, cut, nmodes):
    """same composition property on the bosonic engine (vacuum start, symbolic gate parameters)"""
    import strawberryfields as sf
    from strawberryfields import ops
    A = alphabet()
    vals = {}

    def valmaker(pos):
        def v(nm, **kw):
            key = "c%d_%s" % (pos, nm)
            if key not in vals:
                vals[key] = g.real(key, **kw)
            return vals[key]
        return v
    p1 = sf.Program(nmodes)
    with p1.context as q:
        for pos, name in enumerate(seq[:cut]):
            A[name](ops, valmaker(pos), q)
    p2 = sf.Program(p1)
    with p2.context as q:
        for pos, name in enumerate(seq[cut:], start=cut):
            A[name](ops, valmaker(pos), q)
    pc = sf.Program(nmodes)
    with pc.context as q:
        for pos, name in enumerate(seq):
            A[name](ops, valmaker(pos), q)
    e1 = sf.Engine("bosonic")
    e1.run([p1, p2], modes=[])
    e2 = sf.Engine("bosonic")
    e2.run(pc, modes=[])
    c1, c2 = e1.backend.circuit, e2.backend.circuit
    g.eq("segments == concatenated.means", c1.means, c2.means)
    g.eq("segments == concatenated.covs", c1.covs, c2.covs)
    g.eq("segments == concatenated.weights", c1.weights, c2.weights)


class FailingBackend:
    """backend stub that raises at the k-th API call (fault point), recording nothing else"""

    def __init__(self, fail_at, exc):
        self.n = 0
        self.fail_at = fail_at
        self.exc = exc

    def __getattr__(self, name):
        def call(*a, **k):
            self.n += 1
            if self.n == self.fail_at:
                raise self.exc("injected fault in backend.%s" % name)
            return None
        return call


def h_aborted_apply(g, gate, dagger, exc):
    """an operation whose backend call fails leaves the user's operation object as it was"""
    from strawberryfields import ops
    from strawberryfields.backends.base import NotApplicableError
    from strawberryfields.program_utils import RegRef
    vals = {"Rgate": ["theta"], "Sgate": ["r", "phi"], "Dgate": ["r", "phi"], "BSgate": ["theta", "phi"], "Kgate": ["kappa"]}[gate]
    pv = [g.real(v) for v in vals]
    op = getattr(ops, gate)(*pv)
    if dagger:
        op = op.H
    p0 = list(op.p)
    E = {"NotImplementedError": NotImplementedError, "NotApplicableError": NotApplicableError, "ValueError": ValueError}[exc]
    regs = [RegRef(i) for i in range(op.ns)]
    raised = False
    fb = FailingBackend(1, E)
    try:
        op.apply(regs, fb)
    except E:
        raised = True
    g.fact("the fault propagates (or no backend call was made: identity shortcut)", raised or fb.n == 0)
    g.fact("parameters are the same objects after the aborted apply", len(op.p) == len(p0) and all(a is b for a, b in zip(op.p, p0)),
           detail="p[0] before: %r after: %r" % (p0[0], op.p[0]))
    g.fact("dagger flag unchanged", op.dagger == dagger)


def build(ctx):
    nm = 2
    A = list(alphabet())
    fns = ["BaseEngine._run", "BaseEngine.reset", "LocalEngine.run", "LocalEngine.reset", "LocalEngine._run_program", "Program.compile",
           "Program._linked_copy", "Program.lock", "Program.__init__(prev)", "Program.can_follow", "Gate.apply", "Gate.decompose",
           "Measurement.apply", "GaussianBackend.*"]
    L = 2 if not ctx.thorough else 3
    seqs = []
    for l in range(2, L + 1):
        for s in itertools.product(A, repeat=l):
            meas = [i for i, x in enumerate(s) if x == "MeasX1"]
            if len(meas) > 1:
                continue
            uses = [i for i, x in enumerate(s) if x == "R(q1)0"]
            if uses and (not meas or min(uses) < meas[0]):
                continue
            seqs.append(list(s))
    if not ctx.thorough:
        extra = [["MeasX1", "R(q1)0", "BS01"], ["S0", "MeasX1", "R(q1)0"], ["BS01", "MeasX1", "R(q1)0"], ["MZ.H01", "X0", "BS.H10"]]
        seqs += extra
    for s in seqs:
        for cut in range(1, len(s)):
            if not ctx.thorough and len(s) == 3 and cut != 2 and s[0] != "MeasX1":
                continue
            ctx.add("compose.%s.cut%d" % ("|".join(s), cut), h_compose, {"seq": s, "cut": cut, "nmodes": nm}, modules=mods, functions=fns,
                    bounds={"modes": nm, "length": len(s), "cut": cut, "state": "arbitrary symbolic initial state"}, validate_points=1)
    for s in (["S0", "R0"], ["S0", "BS01"], ["D1", "R.H1"]):
        ctx.add("bosonic.compose.%s.cut1" % "|".join(s), h_compose_bosonic, {"seq": s, "cut": 1, "nmodes": nm},
                modules=lambda: mods() + C.bosonic_modules(), functions=["BosonicEngine._run_program", "BosonicBackend.run_prog", "BosonicBackend.init_circuit"],
                bounds={"modes": nm, "length": 2, "cut": 1, "state": "vacuum"}, validate_points=1)
    for comp in ("gaussian", "fock", "bosonic", "gaussian_unitary", "passive"):
        for s in ([["X0", "BS.H10"], ["MZ.H01", "R0"], ["S0", "Loss0"], ["R.H1", "BS01"]]):
            ctx.add("compile.%s.%s" % (comp, "|".join(s)), h_compile_untouched, {"seq": s, "compiler": comp, "nmodes": nm},
                    modules=lambda: mods() + __import__("props.c11", fromlist=["x"]).compiler_modules(), functions=fns,
                    bounds={"modes": nm, "compiler": comp}, validate_points=1)
    for s in (["Loss0", "Loss0"], ["R0", "R0"], ["S0", "S0", "Loss0"], ["D1", "D1"], ["R.H1", "R.H1"]):
        ctx.add("compile.gaussian.optimize.%s" % "|".join(s), h_compile_untouched,
                {"seq": s, "compiler": "gaussian", "nmodes": nm, "optimize": True}, modules=mods, functions=fns + ["optimize_circuit", "Gate.merge", "Channel.merge"],
                bounds={"modes": nm, "compiler": "gaussian", "optimize": True}, validate_points=1)
    for gate in ("Rgate", "Sgate", "Dgate", "BSgate", "Kgate"):
        for dagger in (False, True):
            for exc in ("NotImplementedError", "NotApplicableError", "ValueError"):
                ctx.add("aborted_apply.%s%s.%s" % (gate, ".H" if dagger else "", exc), h_aborted_apply,
                        {"gate": gate, "dagger": dagger, "exc": exc}, modules=F.frontend_modules, functions=["Gate.apply"],
                        bounds={"fault": "backend call raises %s" % exc}, validate_points=0)
