"""C10: symbolic parameters behave like their values"""
import itertools
import numpy as np

from symx import fn
from symx.scalar import Sym
from symx.symarray import sarray
from . import common as C
from . import frontend as F
from . import c03, c09


def mods():
    import strawberryfields.parameters as prm
    import strawberryfields.program as program
    return c09.mods() + [prm, program]


# ------------------------------------------------------------------------------------------ (1) evaluation

class V:
    """value-level twin of parameters.par_funcs: the same template evaluated directly on the values, with no sympy
    expression (and therefore no sympy simplification under symbol assumptions) in between"""
    sin, cos, exp, sqrt = staticmethod(fn.sin), staticmethod(fn.cos), staticmethod(fn.exp), staticmethod(fn.sqrt)
    cosh, sinh, tanh = staticmethod(fn.cosh), staticmethod(fn.sinh), staticmethod(fn.tanh)
    asinh, acosh, atan = staticmethod(fn.arcsinh), staticmethod(fn.arccosh), staticmethod(fn.arctan)
    atan2 = staticmethod(fn.arctan2)
    Abs = staticmethod(abs)
    re, im, conjugate = staticmethod(fn.real), staticmethod(fn.imag), staticmethod(fn.conj)

    @staticmethod
    def arg(z):
        return fn.arctan2(fn.imag(z), fn.real(z))

    @staticmethod
    def sign(x):
        # three-way case split (forks the explorer in symbolic mode)
        if x > 0:
            return 1 + 0 * x
        if x < 0:
            return -1 + 0 * x
        return 0 * x


def templates():
    """expression templates in free parameters x, y and a measured parameter m (everything ops.py builds with pf.*, plus the
    non-holomorphic functions a user applies to a complex heterodyne outcome); P is par_funcs or its value-level twin V"""
    T = {
        "x+y": lambda x, y, m, P: x + y, "x-2*y": lambda x, y, m, P: x - 2 * y, "x*y": lambda x, y, m, P: x * y,
        "x/(1+y**2)": lambda x, y, m, P: x / (1 + y ** 2), "x**2": lambda x, y, m, P: x ** 2,
        "sin(x)*2+1": lambda x, y, m, P: P.sin(x) * 2 + 1, "cos(x+y)": lambda x, y, m, P: P.cos(x + y),
        "exp(-x**2)": lambda x, y, m, P: P.exp(-x ** 2), "sqrt(1+x**2)": lambda x, y, m, P: P.sqrt(1 + x ** 2),
        "Abs(x)": lambda x, y, m, P: P.Abs(x), "sign(x)": lambda x, y, m, P: P.sign(x),
        "sqrt(x**2)": lambda x, y, m, P: P.sqrt(x ** 2), "Abs(x*y)": lambda x, y, m, P: P.Abs(x * y),
        "asinh(-x/2)": lambda x, y, m, P: P.asinh(-x / 2), "acosh(sqrt(1+x**2/4))": lambda x, y, m, P: P.acosh(P.sqrt(1 + (x / 2) ** 2)),
        "atan(x/2)": lambda x, y, m, P: P.atan(x / 2),
        "0.5*atan2(-1/cosh(x),-tanh(x))": lambda x, y, m, P: 0.5 * P.atan2(-1.0 / P.cosh(x), -P.tanh(x)),
        "tanh(x)*y": lambda x, y, m, P: P.tanh(x) * y, "-pi/2*sign(x)-atan(x)": lambda x, y, m, P: -np.pi / 2 * P.sign(x) - P.atan(x),
        "m": lambda x, y, m, P: m, "2*m+x": lambda x, y, m, P: 2 * m + x, "sin(m)*y": lambda x, y, m, P: P.sin(m) * y,
        "Abs(m)": lambda x, y, m, P: P.Abs(m), "sqrt(m**2)": lambda x, y, m, P: P.sqrt(m ** 2), "sign(m)": lambda x, y, m, P: P.sign(m),
        "x/sqrt(2*2)": lambda x, y, m, P: x / np.sqrt(2 * 2),
        # complex (heterodyne) outcome
        "cm:m*2+x": lambda x, y, m, P: m * 2 + x, "cm:re(m)": lambda x, y, m, P: P.re(m), "cm:2*im(m)": lambda x, y, m, P: 2 * P.im(m),
        "cm:conjugate(m)": lambda x, y, m, P: P.conjugate(m), "cm:Abs(m)**2": lambda x, y, m, P: P.Abs(m) ** 2,
        "cm:m*conjugate(m)": lambda x, y, m, P: m * P.conjugate(m), "cm:Abs(m)": lambda x, y, m, P: P.Abs(m),
        "cm:m**2": lambda x, y, m, P: m ** 2,
    }
    return T


def h_evaluate(g, name):
    import strawberryfields as sf
    from strawberryfields.parameters import par_evaluate, FreeParameter, MeasuredParameter, par_regref_deps, par_funcs
    from strawberryfields.program_utils import RegRef
    x, y = FreeParameter("x"), FreeParameter("y")
    rr = RegRef(3)
    m = MeasuredParameter(rr)
    vx, vy = g.real("x"), g.real("y")
    vm = g.complex("m") if name.startswith("cm:") else g.real("m")
    x.val, y.val = vx, vy
    rr.val = sarray([vm]) if g.sym else np.array([vm])
    e = templates()[name](x, y, m, par_funcs)
    got = par_evaluate(e)
    ref = templates()[name](vx, vy, vm, V)
    if "atan" in name or "asinh" in name or "acosh" in name or "arg(" in name:
        # angles are compared through their cosine and sine (and their range), hyperbolic arguments through sinh
        if "asinh" in name or "acosh" in name:
            g.eq("value.sinh", fn.sinh(got), fn.sinh(ref))
            g.eq("value.cosh", fn.cosh(got), fn.cosh(ref))
        else:
            g.eq("value.cos", fn.cos(got), fn.cos(ref))
            g.eq("value.sin", fn.sin(got), fn.sin(ref))
    else:
        g.eq("value", got, ref)
    deps = par_regref_deps(e)
    uses_m = name.startswith("cm:") or name in ("m", "2*m+x", "sin(m)*y", "Abs(m)", "sqrt(m**2)", "sign(m)")
    g.fact("par_regref_deps", deps == ({rr} if uses_m else set()), detail=repr(deps))


def _exact(c):
    import sympy
    from fractions import Fraction
    if c.is_Rational:
        return Sym.const(Fraction(int(c.p), int(c.q)))
    return Sym.const(float(c))


def h_evaluate_array(g):
    """object arrays of expressions are evaluated elementwise"""
    from strawberryfields.parameters import par_evaluate, FreeParameter
    x, y = FreeParameter("x"), FreeParameter("y")
    vx, vy = g.real("x"), g.real("y")
    x.val, y.val = vx, vy
    arr = np.array([x + y, 2 * x, 0.5, x * y], dtype=object)
    got = par_evaluate(arr)
    g.eq("array", got, fn.asarr([vx + vy, 2 * vx, 0.5 + 0 * vx, vx * vy], vx if g.sym else None))


# ------------------------------------------------------------------------------------------ (2) substitution commutes

def h_substitution(g, seq, nmodes, optimize):
    """template with FreeParameters compiled (and optimised) BEFORE binding == template built on the values"""
    import strawberryfields as sf
    from strawberryfields import ops
    A = c09.alphabet()
    vals = {}

    def vmaker(pos):
        def v(nm, **kw):
            key = "c%d_%s" % (pos, nm)
            if key not in vals:
                vals[key] = g.real(key, **kw)
            return vals[key]
        return v
    pf_ = sf.Program(nmodes)
    bound = []
    with pf_.context as q:
        for pos, name in enumerate(seq):
            def v(nm, pos=pos, **kw):
                val = vmaker(pos)(nm, **kw)
                par = pf_.params("c%d_%s" % (pos, nm))
                bound.append((par, val))
                return par
            A[name](ops, v, q)
    compiled = pf_.compile(compiler="gaussian", optimize=optimize)
    for par, val in bound:
        par.val = val
    pv = sf.Program(nmodes)
    with pv.context as q:
        for pos, name in enumerate(seq):
            A[name](ops, vmaker(pos), q)
    be1 = C.gauss_backend(g, nmodes)
    be2 = c03.clone_gauss(be1)
    F.apply_cmds(compiled.circuit, be1)
    F.apply_cmds(pv.compile(compiler="gaussian").circuit, be2)
    F.eq_gauss_state(g, "free-then-bound == values", F.gauss_final(be1), F.gauss_final(be2))


# ------------------------------------------------------------------------------------------ (3) measured parameters

def h_measured_latest(g, second="D", optimize=False):
    """measure, use, re-prepare, re-measure, use: each use sees the latest outcome of its mode (also after optimize, which
    must not merge the two uses across the second measurement)"""
    import strawberryfields as sf
    from strawberryfields import ops
    n = 2
    base = C.gauss_backend(g, n)
    outs = [[g.real("o%d_x" % k), g.real("o%d_p" % k)] for k in range(2)]
    calls = [0]

    def mvn(mean, cov, size=None):
        k = calls[0]
        calls[0] += 1
        o = sarray([outs[k]]) if g.sym else np.array([outs[k]])
        return o if size is not None else o[0]
    g.random_handler("multivariate_normal", mvn)
    prog = sf.Program(n)
    with prog.context as q:
        ops.MeasureX | q[1]
        ops.Rgate(q[1].par) | q[0]
        ops.Squeezed(g.real("r")) | q[1]
        ops.MeasureX | q[1]
        if second == "D":
            ops.Dgate(q[1].par * 0.5) | q[0]
        else:
            ops.Rgate(q[1].par * 0.5) | q[0]
    if optimize:
        prog = prog.compile(compiler="gaussian", optimize=True)
    eng = c09.make_engine(g, base)
    eng.run(prog, modes=[])
    # reference: the same circuit with the outcomes written in as numbers
    calls[0] = 0
    ref = sf.Program(n)
    with ref.context as q:
        ops.MeasureX | q[1]
        ops.Rgate(outs[0][0]) | q[0]
        ops.Squeezed(vars(g)["env"]["r"] if not g.sym else _get(g, "r")) | q[1]
        ops.MeasureX | q[1]
        if second == "D":
            ops.Dgate(outs[1][0] * 0.5) | q[0]
        else:
            ops.Rgate(outs[1][0] * 0.5) | q[0]
    eng2 = c09.make_engine(g, base)
    eng2.run(ref, modes=[])
    c1, c2 = eng.backend.circuit, eng2.backend.circuit
    F.eq_gauss_state(g, "measured parameters == their latest outcomes", (c1.nmat, c1.mmat, c1.mean), (c2.nmat, c2.mmat, c2.mean))


def _get(g, name):
    from symx import term as T
    from symx.scalar import Q
    return Sym(Q(T.var(name)))


def h_errors(g, case):
    import strawberryfields as sf
    from strawberryfields import ops
    from strawberryfields.parameters import ParameterError
    raised = None
    try:
        if case == "use_before_measurement":
            prog = sf.Program(2)
            with prog.context as q:
                ops.Rgate(q[1].par) | q[0]
                ops.MeasureX | q[1]
            sf.LocalEngine("gaussian").run(prog)
        elif case == "unbound_free":
            prog = sf.Program(1)
            x = prog.params("c10_never_bound_anywhere")
            with prog.context as q:
                ops.Rgate(x) | q[0]
            sf.LocalEngine("gaussian").run(prog)
        elif case == "unknown_name":
            prog = sf.Program(1)
            x = prog.params("x")
            with prog.context as q:
                ops.Rgate(x) | q[0]
            sf.LocalEngine("gaussian").run(prog, args={"x": 0.1, "not_a_parameter": 0.2})
        elif case == "unbound_free_after_other_program_bound_same_name":
            def mk():
                p = sf.Program(1)
                x = p.params("x")
                with p.context as q:
                    ops.Rgate(x) | q[0]
                return p
            c, d = mk(), mk()
            sf.LocalEngine("gaussian").run(c, args={"x": 0.3})
            sf.LocalEngine("gaussian").run(d)
        elif case == "measured_parameter_of_another_program":
            def mk():
                p = sf.Program(2)
                with p.context as q:
                    ops.MeasureX | q[1]
                    ops.Rgate(q[1].par) | q[0]
                return p
            g.random_handler("multivariate_normal", lambda mean, cov, size=None: np.zeros((1, 2)))
            a = mk()
            mk()          # merely creating a second program must not affect the first
            try:
                sf.LocalEngine("gaussian").run(a)
            except ParameterError as e:
                g.fact("a program keeps reading its own registers after another program was created", False, detail=str(e))
                return
            g.fact("a program keeps reading its own registers after another program was created", True)
            return
    except ParameterError as e:
        raised = e
    g.fact("%s raises ParameterError" % case, raised is not None)


def build(ctx):
    fns = ["parameters.par_evaluate", "parameters.par_regref_deps", "FreeParameter._eval_evalf", "MeasuredParameter._eval_evalf",
           "sympy.lambdify (numpy printer)", "Program.bind_params", "Program.params", "Program.compile", "Compiler.decompose", "optimize_circuit"]
    for name in templates():
        ctx.add("evaluate.%s" % name, h_evaluate, {"name": name}, modules=mods, functions=fns,
                bounds={"expression": name, "values": "all real x, y, measured m"})
    ctx.add("evaluate.object_array", h_evaluate_array, {}, modules=mods, functions=fns, bounds={})
    nm = 2
    seqs = [["R0", "S0"], ["X0", "BS01"], ["R0", "R0"], ["S0", "S0", "R.H1"], ["MZ.H01", "D1"], ["Loss0", "Loss0"], ["BS.H10", "X0"],
            ["D1", "D1"], ["R.H1", "R.H1", "BS01"]]
    if ctx.thorough:
        A = [a for a in c09.alphabet() if a not in ("MeasX1", "R(q1)0", "Vac1")]
        seqs = [list(s) for s in itertools.product(A, repeat=2)] + seqs
    for s in seqs:
        for opt in (False, True):
            ctx.add("substitution.%s.%s" % ("|".join(s), "optimize" if opt else "plain"), h_substitution,
                    {"seq": s, "nmodes": nm, "optimize": opt}, modules=mods, functions=fns,
                    bounds={"modes": nm, "length": len(s), "optimize": opt}, validate_points=1)
    for second in ("D", "R"):
        for opt in (False, True):
            ctx.add("measured.latest_outcome.%s.%s" % (second, "optimize" if opt else "plain"), h_measured_latest,
                    {"second": second, "optimize": opt}, modules=mods, functions=fns + ["Measurement.apply", "RegRef.val"],
                    bounds={"modes": 2, "script": "measure, use (Rgate), re-prepare, re-measure, use (%sgate)" % second,
                            "optimize": opt})
    for case in ("use_before_measurement", "unbound_free", "unknown_name", "unbound_free_after_other_program_bound_same_name",
                 "measured_parameter_of_another_program"):
        ctx.add("errors.%s" % case, h_errors, {"case": case}, modules=mods, functions=fns, bounds={}, validate_points=0)
