"""C11: the Gaussian-merging compilers (gaussian_unitary, passive, gaussian_merge) return an equivalent program"""
import itertools
import numpy as np

from symx import fn
from symx.symarray import sarray
from . import common as C
from . import frontend as F
from . import c02


def compiler_modules():
    import strawberryfields.compilers.gaussian_unitary as gu
    import strawberryfields.compilers.passive as pa
    import strawberryfields.compilers.gaussian_merge as gm
    import strawberryfields.ops as ops
    import thewalrus.symplectic as ws
    return [gu, pa, gm, ops, ws]


# source alphabet: name -> (parameter names, ns)
SRC = {
    "Dgate": (["r", "phi"], 1), "Sgate": (["r", "phi"], 1), "Rgate": (["theta"], 1), "BSgate": (["theta", "phi"], 2),
    "MZgate": (["phi_in", "phi_ex"], 2), "sMZgate": (["phi_in", "phi_ex"], 2), "S2gate": (["r", "phi"], 2),
}
PASSIVE_SRC = {"Rgate": (["theta"], 1), "BSgate": (["theta", "phi"], 2), "MZgate": (["phi_in", "phi_ex"], 2),
               "sMZgate": (["phi_in", "phi_ex"], 2), "LossChannel": (["T"], 1)}


def doc_chain(name, vals, dagger, pos):
    """documented meaning of a source operation as a list of (gate, params, positions) in execution order.
    sMZgate has no documented matrix: its meaning is its own decomposition in ops.py (BS, R, R, BS)."""
    pi = np.pi
    if name == "sMZgate":
        # mirror of ops.sMZgate._decompose, read as documentation
        chain = [("BSgate", [pi / 4, pi / 2], pos), ("Rgate", [vals[1] - pi / 2], [pos[1]]),
                 ("Rgate", [vals[0] - pi / 2], [pos[0]]), ("BSgate", [pi / 4, pi / 2], pos)]
        if dagger:
            chain = [(g_, [-p[0]] + p[1:], m) for g_, p, m in reversed(chain)]
        return [(g_, p, m, False) for g_, p, m in chain]
    return [(name, list(vals), list(pos), dagger)]


def net_map(chain, n, like):
    """net (S, d) in xpxp ordering (hbar=2) of a chain of documented gates on n modes"""
    S = fn.eye(2 * n, like)
    d = fn.zeros((2 * n,), like)
    for name, vals, pos, dagger in chain:
        vals = [v if not isinstance(v, float) else _exact_angle(v, like) for v in vals]
        if name == "LossChannel":
            X, _ = C.loss_xy(vals[0], 0, pos[0], n, like)
            S, d = X @ S, X @ d
            continue
        if not dagger:
            A, B, dd = c02.doc_spec(name, vals, pos, n, like)
        elif name in ("MZgate", "Fouriergate"):
            A, B, dd = c02.doc_spec(name, vals, pos, n, like)
            A = fn.conj(A).T
        else:
            A, B, dd = c02.doc_spec(name, [-vals[0]] + list(vals[1:]), pos, n, like)
        Sg, dg = C.symplectic_xpxp(A, B, dd)
        S, d = Sg @ S, Sg @ d + dg
    return S, d


def _exact_angle(v, like):
    """float multiples of pi used in documentation -> exact multiples (symbolic mode)"""
    from symx.scalar import Sym
    from symx import term as T
    if isinstance(like, np.ndarray) and like.dtype != object:
        return v
    m = T._pi_multiple(T.to_fraction(v))
    if m is None:
        return v
    return Sym.of_term(T.scale(m, T.PI))


def xxpp_to_xpxp_matrix(S):
    n = S.shape[0] // 2
    perm = [q for i in range(n) for q in (i, i + n)]
    return S[np.ix_(perm, perm)]


def h_gaussian_unitary(g, seq, indices, nreg):
    """seq: list of (name, dagger, target positions into `indices`)"""
    import strawberryfields as sf
    from strawberryfields import ops
    prog = sf.Program(nreg)
    used_sorted = sorted(set(indices[p] for _, _, tp in seq for p in tp))
    posof = {m: i for i, m in enumerate(used_sorted)}
    n = len(used_sorted)
    like = g.const(0) if g.sym else 0.0
    chain = []
    with prog.context as q:
        for k, (name, dagger, tp) in enumerate(seq):
            vals = [g.real("c%d_%s" % (k, nm)) for nm in SRC[name][0]]
            op = getattr(ops, name)(*vals)
            if dagger:
                op = op.H
            modes = [indices[p] for p in tp]
            op | tuple(q[m] for m in modes)
            chain += doc_chain(name, vals, dagger, [posof[m] for m in modes])
    from strawberryfields.program_utils import CircuitError
    stub_bloch_messiah(g)
    try:
        out = prog.compile(compiler="gaussian_unitary")
    except CircuitError:
        g.fact("CircuitError is acceptable", True)
        return
    like_arr = fn.zeros((1,), sarray([0]) if g.sym else np.zeros(1))
    Sref, dref = net_map(chain, n, like_arr)
    # interpret the output on the registers it names, in that order
    Sout = fn.eye(2 * n, like_arr)
    dout = fn.zeros((2 * n,), like_arr)
    seen_gt = 0
    for cmd in out.circuit:
        nm = type(cmd.op).__name__
        regs = [posof[r.ind] for r in cmd.reg]
        if nm == "GaussianTransform":
            seen_gt += 1
            Sx = xxpp_to_xpxp_matrix(cmd.op.p[0])
            k = len(regs)
            full = fn.eye(2 * n, like_arr)
            idx = [qq for r in regs for qq in (2 * r, 2 * r + 1)]
            for a, ia in enumerate(idx):
                for b, ib in enumerate(idx):
                    full[ia, ib] = Sx[a, b] + 0 * full[ia, ib]
            Sout, dout = full @ Sout, full @ dout
        elif nm == "Dgate":
            r_, ph = cmd.op.p
            a = polar(r_, ph)
            dout[2 * regs[0]] = dout[2 * regs[0]] + 2 * fn.real(a)
            dout[2 * regs[0] + 1] = dout[2 * regs[0] + 1] + 2 * fn.imag(a)
        else:
            g.fact("unexpected operation %s in gaussian_unitary output" % nm, False)
    g.fact("at most one GaussianTransform", seen_gt <= 1)
    g.eq("S", Sout, Sref)
    g.eq("d", dout, dref)


def stub_bloch_messiah(g):
    """GaussianTransform.__init__ eagerly classifies S as active/passive with a 1e-13 tolerance test and runs the
    LAPACK-based Bloch-Messiah decomposition; none of that is used by these obligations (their subject is the matrix
    the compiler hands over), so in symbolic mode the constructor only stores S"""
    if g.sym:
        import strawberryfields.ops as ops

        def init(self, S, vacuum=False, tol=1e-10):
            ops.Decomposition.__init__(self, [S])
            self.ns = S.shape[0] // 2
            self.vacuum = vacuum
            self.active = None
        g.patch(ops.GaussianTransform, "__init__", init)
        g.note("stub: GaussianTransform.__init__ stores S only (active/passive classification and Bloch-Messiah factors are not used here)")


def h_passive(g, seq, indices, nreg):
    import strawberryfields as sf
    from strawberryfields import ops
    prog = sf.Program(nreg)
    used_sorted = sorted(set(indices[p] for _, _, tp in seq for p in tp))
    posof = {m: i for i, m in enumerate(used_sorted)}
    n = len(used_sorted)
    chain = []
    with prog.context as q:
        for k, (name, dagger, tp) in enumerate(seq):
            vals = [g.real("c%d_%s" % (k, nm), **({"lo": 0, "hi": 1} if nm == "T" else {})) for nm in PASSIVE_SRC[name][0]]
            op = getattr(ops, name)(*vals)
            if dagger:
                op = op.H
            modes = [indices[p] for p in tp]
            op | tuple(q[m] for m in modes)
            chain += doc_chain(name, vals, dagger, [posof[m] for m in modes])
    out = prog.compile(compiler="passive")
    like_arr = fn.zeros((1,), sarray([0]) if g.sym else np.zeros(1))
    Sref, dref = net_map(chain, n, like_arr)
    g.fact("single PassiveChannel", len(out.circuit) == 1 and type(out.circuit[0].op).__name__ == "PassiveChannel")
    cmd = out.circuit[0]
    Tm = cmd.op.p[0]
    regs = [posof[r.ind] for r in cmd.reg]
    # documented: a_i^+ -> sum_j T_ij a_j^+, i.e. a -> conj(T) a ... the backend applies a -> T a (apply_u: mean = U @ mean)
    full = fn.eye(n, like_arr)
    for a_, ia in enumerate(regs):
        for b_, ib in enumerate(regs):
            full[ia, ib] = Tm[a_, b_] + 0 * full[ia, ib]
    Sout, _ = C.symplectic_xpxp(full, 0 * full, fn.zeros((n,), like_arr))
    g.eq("T", Sout, Sref)


def seqs_for(src, two_positions, L, with_dagger=True):
    """all sequences of length L over the alphabet on positions {0,1} (single-mode ops on either position, two-mode
    ops in both orders)"""
    items = []
    for name, (pn, ns) in src.items():
        dags = (False, True) if (with_dagger and name.endswith("gate")) else (False,)
        for dg in dags:
            if ns == 1:
                for p in two_positions:
                    items.append((name, dg, [p]))
            else:
                for tp in itertools.permutations(two_positions, 2):
                    items.append((name, dg, list(tp)))
    return [list(s) for s in itertools.product(items, repeat=L)]


def build(ctx):
    mods = compiler_modules
    index_sets = [([0, 1], 2), ([1, 8], 10)] if not ctx.thorough else [([0, 1], 2), ([1, 8], 10), ([9, 3], 10), ([8, 16], 17)]
    fn_gu = ["GaussianUnitary.compile", "_apply_symp_one_mode_gate", "_apply_symp_two_mode_gate", "thewalrus.symplectic.*",
             "parameters.par_evaluate"]
    for indices, nreg in index_sets:
        singles = seqs_for(SRC, [0, 1], 1)
        for s in singles:
            ctx.add("gaussian_unitary.%s.%s" % (indices, _nm(s)), h_gaussian_unitary, {"seq": s, "indices": indices, "nreg": nreg},
                    modules=mods, functions=fn_gu, bounds={"source_ops": 1, "register": nreg, "modes_used": indices})
        for s in seqs_for(PASSIVE_SRC, [0, 1], 1):
            ctx.add("passive.%s.%s" % (indices, _nm(s)), h_passive, {"seq": s, "indices": indices, "nreg": nreg},
                    modules=mods, functions=["Passive.compile", "_apply_one_mode_gate", "_apply_two_mode_gate", "_beam_splitter_passive"],
                    bounds={"source_ops": 1, "register": nreg, "modes_used": indices})
    # pairs (order of composition, mixed one- and two-mode operations), on the contiguous register only in quick
    # (pairs with MZgate / sMZgate: nested half-angle atoms give queries that run for minutes; they are covered as single
    # operations, both dagger flags, on every index set above)
    pair_src = {k: SRC[k] for k in ("Dgate", "Sgate", "Rgate", "BSgate", "S2gate")}
    pairs = seqs_for(pair_src, [0, 1], 2, with_dagger=ctx.thorough)
    if not ctx.thorough:
        pairs = [p for p in pairs if not (p[0][2] == [1] or p[1][2] == [0, 1])]
    for s in pairs:
        ctx.add("gaussian_unitary.[0, 1].%s" % _nm(s), h_gaussian_unitary, {"seq": s, "indices": [0, 1], "nreg": 2},
                modules=mods, functions=fn_gu, bounds={"source_ops": 2, "register": 2, "modes_used": [0, 1]}, validate_points=1)


def _nm(s):
    return "|".join("%s%s%s" % (n, ".H" if d else "", tp) for n, d, tp in s)


# ------------------------------------------------------------------------------------------ gaussian_merge

GM_GAUSS = {"Rgate": (["theta"], 1), "Sgate": (["r", "phi"], 1), "Dgate": (["r", "phi"], 1), "BSgate": (["theta", "phi"], 2)}
GM_NONGAUSS = {"Kgate": 1, "Vgate": 1}


def marker_map(g, tag, pos, n, like):
    """opaque single-mode affine symplectic map (product of two shears + a displacement): a generic non-Gaussian
    command instance commutes with nothing, so equality of the net maps for all marker values means every
    non-Gaussian operation kept its place relative to the Gaussian operations around it"""
    u, v, e, f = (g.real("%s_%s" % (tag, k)) for k in "uvef")
    S = fn.eye(2 * n, like)
    d = fn.zeros((2 * n,), like)
    x, p = 2 * pos, 2 * pos + 1
    # [[1,u],[0,1]] [[1,0],[v,1]]: symplectic by construction, generic enough to commute with no rotation, squeezer,
    # beamsplitter or displacement with generic parameters
    m00 = 1 + u * v
    m01 = u
    m10 = v
    m11 = 1 + 0 * u
    S[x, x], S[x, p], S[p, x], S[p, p] = m00 + 0 * S[x, x], m01 + 0 * S[x, x], m10 + 0 * S[x, x], m11 + 0 * S[x, x]
    d[x], d[p] = e + 0 * d[x], f + 0 * d[x]
    return S, d


def polar(r_, ph):
    """r e^{i ph}.  When (r, ph) are syntactically (abs(z), angle(z)) of the same z -- what the compilers emit for their
    displacement gates -- the product is z itself: lemma `lemma.polar`, discharged by the solver as its own job."""
    from symx.scalar import Sym, Q
    from symx import term as T
    if isinstance(r_, Sym) and isinstance(ph, Sym) and r_.is_real() and ph.is_real() and r_.re.d is T.ONE and ph.re.d is T.ONE:
        rt, pt = r_.re.n, ph.re.n
        if rt.op == "sqrt" and pt.op == "atan2" and rt.args[1] is T.ONE:
            y, x = pt.args
            if T.add(T.mul(x, x), T.mul(y, y)) is rt.args[0]:
                return Sym(Q(x), Q(y))
    return r_ * fn.expi(ph)


def h_lemma_polar(g):
    """abs(z) * exp(i angle(z)) == z for every complex z (numpy conventions: angle(0) = 0)"""
    z = g.complex("z")
    if g.sym:
        from symx.symarray import NPProxy
        npx = NPProxy()
    else:
        npx = np
    r_, ph = npx.abs(z), npx.angle(z)
    g.eq("polar", r_ * fn.expi(ph), z)


def interpret(g, cmds, n, markers, like_arr):
    S = fn.eye(2 * n, like_arr)
    d = fn.zeros((2 * n,), like_arr)
    for cmd in cmds:
        nm = type(cmd.op).__name__
        regs = [r.ind for r in cmd.reg]
        if nm in GM_NONGAUSS:
            Sg, dg = markers[id(cmd.op)](regs[0])
        elif nm == "GaussianTransform":
            Sx = xxpp_to_xpxp_matrix(cmd.op.p[0])
            Sg = fn.eye(2 * n, like_arr)
            idx = [qq for r in regs for qq in (2 * r, 2 * r + 1)]
            for a, ia in enumerate(idx):
                for b, ib in enumerate(idx):
                    Sg[ia, ib] = Sx[a, b] + 0 * Sg[ia, ib]
            dg = fn.zeros((2 * n,), like_arr)
        elif nm == "Dgate":
            a = polar(*cmd.op.p)
            if getattr(cmd.op, "dagger", False):
                a = -a
            Sg = fn.eye(2 * n, like_arr)
            dg = fn.zeros((2 * n,), like_arr)
            dg[2 * regs[0]] = dg[2 * regs[0]] + 2 * fn.real(a)
            dg[2 * regs[0] + 1] = dg[2 * regs[0] + 1] + 2 * fn.imag(a)
        else:
            vals = list(cmd.op.p)
            Sg, dg = net_map([(nm, vals, regs, getattr(cmd.op, "dagger", False))], n, like_arr)
        S, d = Sg @ S, Sg @ d + dg
    return S, d


def h_gaussian_merge(g, seq, n):
    import strawberryfields as sf
    from strawberryfields import ops
    from strawberryfields.program_utils import CircuitError
    prog = sf.Program(n)
    like_arr = fn.zeros((1,), sarray([0]) if g.sym else np.zeros(1))
    markers = {}
    with prog.context as q:
        for k, (name, modes) in enumerate(seq):
            if name in GM_NONGAUSS:
                op = getattr(ops, name)(0.1 * (k + 1))
                S_d = {}

                def mk(pos, k=k, cache=S_d):
                    if pos not in cache:
                        cache[pos] = marker_map(g, "mk%d" % k, pos, n, like_arr)
                    return cache[pos]
                markers[id(op)] = mk
            else:
                vals = [g.real("c%d_%s" % (k, nm)) for nm in GM_GAUSS[name][0]]
                op = getattr(ops, name)(*vals)
            op | tuple(q[m] for m in modes)
    src = list(prog.circuit)
    stub_bloch_messiah(g)
    try:
        out = prog.compile(compiler="gaussian_merge")
    except CircuitError:
        g.fact("CircuitError is acceptable", True)
        return
    except (IndexError, KeyError, ValueError, AttributeError) as e:
        # "compilation either succeeds with an equivalent program or raises a circuit error"
        g.fact("compile raised %s instead of returning a program or raising CircuitError" % type(e).__name__, False,
               detail=str(e))
        return
    g.fact("non-Gaussian operations are kept as the same objects, once each",
           sorted(id(c.op) for c in out.circuit if type(c.op).__name__ in GM_NONGAUSS) ==
           sorted(id(c.op) for c in src if type(c.op).__name__ in GM_NONGAUSS))
    S1, d1 = interpret(g, src, n, markers, like_arr)
    S2, d2 = interpret(g, out.circuit, n, markers, like_arr)
    g.eq("S", S2, S1)
    g.eq("d", d2, d1)


def gm_sequences(n, L):
    items = []
    for name, (pn, ns) in GM_GAUSS.items():
        if ns == 1:
            for m in range(n):
                items.append((name, [m]))
        else:
            for tp in itertools.permutations(range(n), 2):
                items.append((name, list(tp)))
    for name in GM_NONGAUSS:
        for m in range(n):
            items.append((name, [m]))
    for l in range(2, L + 1):
        for s in itertools.product(items, repeat=l):
            ng = sum(1 for x in s if x[0] in GM_NONGAUSS)
            if ng == 0 or ng == l:
                continue
            yield list(s)


_build_rest = build


def build(ctx):
    _build_rest(ctx)
    ctx.add("lemma.polar", h_lemma_polar, {}, modules=[], functions=["np.abs / np.angle shims"], bounds={})
    n = 2
    seqs = list(gm_sequences(n, 3))
    if ctx.thorough:
        # length 4 (16384 sequences in full) on a reduced family: one Kgate marker, Gaussian gates on mode 0 / (0, 1), no Dgate (its zero tests multiply the paths)
        seqs += [s for s in gm_sequences(n, 4) if len(s) == 4 and all(x[0] != "Vgate" for x in s)
                 and all(x[0] != "Dgate" for x in s) and sum(1 for x in s if x[0] == "Kgate") == 1
                 and all(x[1] in ([0], [0, 1]) or x[0] == "Kgate" for x in s)
                 and len(set(x[0] for x in s)) == 4]     # three different Gaussian families (two merging S or BS gates: 10+ min queries)
    if not ctx.thorough:
        # quick: Kgate only as the marker (Vgate is treated identically by the compiler: non-Gaussian by name)
        seqs = [s for s in seqs if all(x[0] != "Vgate" for x in s) and not any(x[0] == "BSgate" and x[1] == [1, 0] for x in s)]
        seqs = [s for s in seqs if len(s) < 3 or sum(1 for x in s if x[0] == "Dgate") <= 1]
    for s in seqs:
        ctx.add("gaussian_merge." + "|".join("%s%s" % (a, b) for a, b in s), h_gaussian_merge, {"seq": s, "n": n},
                modules=compiler_modules,
                functions=["GaussianMerge.compile", "GaussianMerge.merge_a_gaussian_op", "GaussianMerge.*", "GaussianUnitary.compile",
                           "program_utils.list_to_DAG", "program_utils.DAG_to_list"],
                bounds={"modes": n, "source_ops": len(s), "non_gaussian": "opaque affine-symplectic markers (2 shears + displacement)"},
                validate_points=1)
