"""C12: hardware compilation conforms to the device (partial claim: the encodable kernels, see DESIGN.md)

(a) allowed-range arithmetic: compilers.compiler.Range / Ranges, Device.validate_parameters
(b) time-domain loop-phase compensation: compilers.tdm.Borealis.update_params
(c) mode / measurement count limits: Program.assert_modes, TDMProgram.assert_modes
"""
import itertools
import numpy as np

from symx import fn
from symx.symarray import sarray
from . import common as C


def mods():
    import strawberryfields.compilers.compiler as cc
    import strawberryfields.compilers.tdm as ct
    import strawberryfields.device as dev
    import strawberryfields.program as program
    import strawberryfields.tdm.program as tp
    return [cc, ct, dev, program, tp]


def _xmods():
    import strawberryfields.compilers.xunitary as xu
    import strawberryfields.compilers.gbs as gbs
    import strawberryfields.ops as ops
    import strawberryfields.program_utils as pu
    return [xu, gbs, ops, pu]


# ------------------------------------------------------------------------------------------ (a) ranges

def _inside(v, lo, hi, atol):
    return (lo - atol <= v) & (v <= hi + atol)


def h_ranges(g, nranges, points):
    """`v in Ranges(...)` <=> some range contains v within atol -- symbolic value, symbolic range ends; `points` of the
    ranges are single values [x] (as in device specifications: a list entry that is not a sequence)"""
    from strawberryfields.compilers.compiler import Range, Ranges
    v = g.real("v")
    ends = []
    args = []
    for k in range(nranges):
        lo = g.real("lo%d" % k)
        if k in points:
            ends.append((lo, lo))
            args.append([lo])
        else:
            w = g.real("w%d" % k, lo=0)
            ends.append((lo, lo + w))
            args.append([lo, lo + w])
    rs = Ranges(*args)
    atol = rs.ranges[0].atol
    g.fact("default tolerance is 1e-5", atol == 1e-5, detail=repr(atol))
    got = v in rs          # the real __contains__ chain; every comparison forks the explorer
    ref = None
    for lo, hi in ends:
        t = _inside(v, lo, hi, atol)
        ref = t if ref is None else (ref | t)
    if g.sym:
        g.holds("Ranges.__contains__ == some range contains the value", ref if got else ~ref)
    else:
        g.holds("Ranges.__contains__ == some range contains the value", bool(ref) == bool(got))
    # a single Range agrees too
    r0 = Range(*args[0])
    got0 = v in r0
    t0 = _inside(v, ends[0][0], ends[0][1], atol)
    g.holds("Range.__contains__", (t0 if got0 else ~t0) if g.sym else bool(t0) == bool(got0))


def h_range_ctor(g):
    """Range(x, y) refuses y < x and nothing else"""
    from strawberryfields.compilers.compiler import Range
    x, y = g.real("x"), g.real("y")
    try:
        Range(x, y)
        ok = True
    except ValueError:
        ok = False
    g.holds("constructed <=> x <= y", ((x <= y) if ok else (y < x)) if g.sym else bool((x <= y) == ok))


def _device(gate_parameters, modes=4):
    from strawberryfields.device import Device
    spec = {"target": "verif_dev", "layout": "name t\nversion 1.0\n", "modes": modes, "compiler": ["Xstrict"],
            "gate_parameters": gate_parameters}
    d = Device.__new__(Device)
    d._spec = spec
    d._certificate = None
    return d


def h_validate(g, shape):
    """Device.validate_parameters raises ValueError <=> some supplied value (scalars, flat and nested lists) lies outside
    every allowed range of its parameter"""
    lo, w, pt = g.real("lo"), g.real("w", lo=0), g.real("pt")
    dev = _device({"phi": [[lo, lo + w], pt]})
    g.note("Device built without __init__ (spec validation is not the subject); gate_parameters is the real property")
    atol = 1e-5
    vals = [g.real("v%d" % k) for k in range({"scalar": 1, "flat": 2, "nested": 3}[shape])]
    arg = {"scalar": vals[0], "flat": list(vals), "nested": [[vals[0]], [vals[1], [vals[2]]]] if shape == "nested" else None}[shape]
    try:
        dev.validate_parameters(phi=arg)
        raised = False
    except ValueError:
        raised = True
    allok = None
    for v in vals:
        t = _inside(v, lo, lo + w, atol) | _inside(v, pt, pt, atol)
        allok = t if allok is None else (allok & t)
    if g.sym:
        g.holds("raises <=> some value is outside every range", ~allok if raised else allok)
    else:
        g.holds("raises <=> some value is outside every range", bool(allok) != raised)
    # unknown parameter names are refused whatever the value
    try:
        dev.validate_parameters(not_a_parameter=vals[0])
        g.fact("unknown parameter name raises ValueError", False)
    except ValueError:
        g.fact("unknown parameter name raises ValueError", True)


# ------------------------------------------------------------------------------------------ (b) Borealis.update_params

class _NS:
    pass


def h_borealis(g, T, user):
    """compensated phases: inside the modulator range and congruent mod pi to user phase + accumulated loop offset minus the
    previous loop's correction; loops whose offset the user has set are left untouched"""
    import strawberryfields.compilers.tdm as ct
    comp = ct.Borealis()
    comp._user_offsets = list(user)
    offs = [g.real("offset%d" % l) for l in range(3)]
    phases = [[g.real("phi%d_%d" % (l, j)) for j in range(T)] for l in range(3)]
    other = [[0.1 * (j + 1) for j in range(T)] for _ in range(4)]
    prog = _NS()
    # tdm_params layout of the Borealis template: [r, phi_0, alpha_0, phi_1, alpha_1, phi_2, alpha_2]
    prog.tdm_params = [other[0], list(phases[0]), other[1], list(phases[1]), other[2], list(phases[2]), other[3]]
    prog.circuit = []
    dev = _NS()
    dev.certificate = {"loop_phases": list(offs)}
    if g.sym:
        # the number of out-of-range values is only used for a log message
        g.patch(ct, "any", lambda it: False)
        g.note("stub: builtin any() in compilers.tdm (guards a logger.warning only) -> False")
    g.patch(ct.logger, "warning", lambda *a, **k: None)
    comp.update_params(prog, dev)
    lo_, hi_ = comp.phi_range
    g.fact("modulator range is [-pi/2, pi/2]", abs(lo_ + np.pi / 2) < 1e-15 and abs(hi_ - np.pi / 2) < 1e-15)
    two_pi = 2 * np.pi
    prev = None
    for l in range(3):
        out = prog.tdm_params[1 + 2 * l]
        if user[l]:
            g.fact("loop %d (user-set offset): phases untouched" % l, all(a is b for a, b in zip(out, phases[l])) and len(out) == T)
            continue
        g.fact("loop %d: one phase per time bin" % l, len(out) == T)
        for j in range(T):
            acc = offs[l] * (j // comp.delays[l])
            if prev is not None:
                acc = acc - offs[prev] * (j // comp.delays[prev])
            target = phases[l][j] + acc
            r = out[j]
            if g.sym:
                g.holds("loop%d.bin%d in range" % (l, j), (r >= lo_) & (r <= hi_))
                y = target % two_pi
                d = r - y
                g.holds("loop%d.bin%d congruent mod pi" % (l, j), (d == 0) | (d == -np.pi) | (d == -two_pi))
            else:
                g.holds("loop%d.bin%d in range" % (l, j), bool(lo_ - 1e-12 <= r <= hi_ + 1e-12))
                k = (r - target) / np.pi
                g.holds("loop%d.bin%d congruent mod pi" % (l, j), bool(abs(k - round(k)) < 1e-9))
        prev = l
    for i in (0, 2, 4, 6):
        g.fact("non-phase parameter list %d untouched" % i, prog.tdm_params[i] == other[i // 2])


# ------------------------------------------------------------------------------------------ (c) assert_modes

def h_assert_modes(g, meas):
    """Program.assert_modes (dictionary form): CircuitError <=> a measurement count exceeds its limit; symbolic limits"""
    import strawberryfields as sf
    from strawberryfields import ops
    from strawberryfields.program_utils import CircuitError
    n = 4
    prog = sf.Program(n)
    counts = {"pnr": 0, "homodyne": 0, "heterodyne": 0}
    with prog.context as q:
        for kind, modes in meas:
            if kind == "fock":
                ops.MeasureFock() | tuple(q[m] for m in modes)
                counts["pnr"] += len(modes)
            elif kind == "homodyne":
                for m in modes:
                    ops.MeasureHomodyne(0.3) | q[m]
                counts["homodyne"] += len(modes)
            elif kind == "x":
                for m in modes:
                    ops.MeasureX | q[m]
                counts["homodyne"] += len(modes)
            elif kind == "heterodyne":
                for m in modes:
                    ops.MeasureHeterodyne() | q[m]
                counts["heterodyne"] += len(modes)
            elif kind == "hd":
                for m in modes:
                    ops.MeasureHD | q[m]
                counts["heterodyne"] += len(modes)
    lim = {k: g.real("max_" + k, lo=0, hi=8) for k in ("pnr", "homodyne", "heterodyne")}
    dev = _NS()
    dev.target = "verif_dev"
    dev.modes = {"pnr_max": lim["pnr"], "homodyne_max": lim["homodyne"], "heterodyne_max": lim["heterodyne"]}
    try:
        prog.assert_modes(dev)
        raised = False
    except CircuitError:
        raised = True
    over = None
    for k in counts:
        t = lim[k] < counts[k]
        over = t if over is None else (over | t)
    if g.sym:
        g.holds("CircuitError <=> some count exceeds its limit", over if raised else ~over)
    else:
        g.holds("CircuitError <=> some count exceeds its limit", bool(over) == raised)
    # integer form
    for total in (n - 1, n, n + 1):
        d2 = _NS()
        d2.target, d2.modes = "verif_dev", total
        try:
            prog.assert_modes(d2)
            r2 = False
        except CircuitError:
            r2 = True
        g.fact("integer limit %d on a %d-mode program" % (total, n), r2 == (n > total))


def h_tdm_assert_modes(g, N, T):
    """TDMProgram.assert_modes: CircuitError <=> more time bins than temporal_max, or a different number of concurrent or
    spatial modes"""
    import strawberryfields as sf
    from strawberryfields import ops
    from strawberryfields.program_utils import CircuitError
    prog = sf.TDMProgram(N=N)
    arrays = [[0.1] * T, [0.2] * T]
    with prog.context(*arrays) as (p, q):
        ops.Sgate(0.5, 0.0) | q[N - 1]
        ops.BSgate(p[0], 0.0) | (q[0], q[N - 1])
        ops.MeasureHomodyne(p[1]) | q[0]
    tmax, conc, spat = g.real("temporal_max", lo=0, hi=10), g.real("concurrent", lo=0, hi=6), g.real("spatial", lo=0, hi=6)
    dev = _NS()
    dev.target = "verif_tdm"
    dev.modes = {"temporal_max": tmax, "concurrent": conc, "spatial": spat}
    try:
        prog.assert_modes(dev)
        raised = False
    except CircuitError:
        raised = True
    g.fact("program shape", prog.timebins == T and prog.concurr_modes == N and prog.spatial_modes == 1,
           detail="%r %r %r" % (prog.timebins, prog.concurr_modes, prog.spatial_modes))
    bad = (tmax < T) | ~(conc == N) | ~(spat == 1)
    if g.sym:
        g.holds("CircuitError <=> shape outside the device's", bad if raised else ~bad)
    else:
        g.holds("CircuitError <=> shape outside the device's", bool(bad) == raised)


# ------------------------------------------------------------------------------------------ (d) Xunitary: squeezer stage

def h_xunitary_s2(g, pairs, zero):
    """Xunitary on squeezer-only programs (4 modes, pairs (0,2) and (1,3)): repeated squeezers on a pair, zero squeezers
    (literal 0 at the positions in `zero`, and symbolic amplitudes that may be 0), pairs left without a squeezer.  Either
    CircuitError, or the returned gates (merged S2gates followed by the mesh of the identity interferometer) have exactly
    the net symplectic action of the source sequence, and the layout S2 x2, (MZ, R, R) x2, MeasureFock"""
    import strawberryfields as sf
    from strawberryfields import ops
    from strawberryfields.program_utils import CircuitError
    from . import c11
    n = 4
    prog = sf.Program(n)
    chain = []
    vals = []
    for k, pr in enumerate(pairs):
        r = 0.0 if k in zero else g.real("r%d" % k)
        ph = g.real("phi%d" % k)
        vals.append((r, ph))
    with prog.context as q:
        for k, pr in enumerate(pairs):
            r, ph = vals[k]
            ops.S2gate(r, ph) | (q[pr], q[pr + 2])
            chain.append(("S2gate", [r if k not in zero else (0 * ph), ph], [pr, pr + 2], False))
        ops.MeasureFock() | q
    try:
        out = prog.compile(compiler="Xunitary")
    except CircuitError:
        g.fact("CircuitError is acceptable", True)
        return
    except (IndexError, KeyError, TypeError, AttributeError) as e:
        g.fact("compile raises nothing but CircuitError", False, detail="%s: %s" % (type(e).__name__, e))
        return
    like_arr = fn.zeros((1,), sarray([0]) if g.sym else np.zeros(1))
    Sref, dref = c11.net_map(chain, n, like_arr)
    names = [type(c.op).__name__ for c in out.circuit]
    g.fact("layout: S2 S2 | MZ R R | MZ R R | MeasureFock",
           names == ["S2gate", "S2gate", "MZgate", "Rgate", "Rgate", "MZgate", "Rgate", "Rgate", "MeasureFock"], detail=repr(names))
    g.fact("squeezers on the pairs (m, m+N)", sorted(tuple(r.ind for r in c.reg) for c in out.circuit[:2]) == [(0, 2), (1, 3)])
    g.fact("all modes measured in order", [r.ind for r in out.circuit[-1].reg] == [0, 1, 2, 3])
    ochain = []
    for c in out.circuit[:-1]:
        ochain.append((type(c.op).__name__, [p_ if not isinstance(p_, (float, np.floating)) else float(p_) for p_ in c.op.p],
                       [r.ind for r in c.reg], bool(c.op.dagger)))
    Sout, dout = c11.net_map(ochain, n, like_arr)
    g.eq("net symplectic matrix", Sout, Sref)
    g.eq("net displacement", dout, dref)


def build(ctx):
    fx = ["compilers.xunitary.Xunitary.compile (squeezer grouping and merging, identity interferometer)", "compilers.gbs.GBS.compile",
          "program_utils.group_operations", "ops.Interferometer._decompose (numeric identity)"]
    fam = [([0], []), ([0, 0], []), ([0, 1], []), ([0, 0], [0]), ([0, 0], [1]), ([1, 0, 1], []), ([0, 1, 0], [0]),
           ([1, 1, 0, 0], []), ([0, 1, 0, 1], [])]
    if ctx.thorough:
        fam += [([0, 0, 0], []), ([0, 0, 0], [1]), ([0, 0, 1, 1], [1]), ([0, 0, 1], [2]), ([0, 1, 0, 1, 1], [])]
    for pairs, zero in fam:
        ctx.add("xunitary.squeezers.%s.zero%s" % ("".join(map(str, pairs)), "".join(map(str, zero))), h_xunitary_s2,
                {"pairs": pairs, "zero": zero}, modules=lambda: mods() + _xmods(), functions=fx,
                bounds={"modes": 4, "squeezers on pairs": pairs, "literal zero amplitudes at": zero,
                        "amplitudes and phases": "symbolic (may be zero / equal: those tests fork)", "interferometer": "identity"},
                validate_points=1)
    ctx.outside += [
        "layout conformance of Xstrict / Xunitary / Xcov output (networkx VF2 isomorphism against the Blackbird layout, blackbird "
        "template matching: native library code that needs concrete parameters) and their preservation of photon statistics "
        "(Xunitary / Xcov re-synthesise through Takagi / Bloch-Messiah / rectangular_symmetric at 8 modes: LAPACK, and 4x4 "
        "MZ-mesh queries no solver decided within the cap, cf. C17)",
        "tdm.utils.full_compile / make_squeezing_compatible / loop_phase_from_device, Borealis.compile's template comparison and "
        "add_loss", "Device.__init__ (specification validation)",
    ]
    fa = ["compilers.compiler.Range.__init__", "Range.__contains__", "Ranges.__contains__", "Device.gate_parameters",
          "Device.validate_parameters"]
    for nr, pts in [(1, ()), (1, (0,)), (2, ()), (2, (1,)), (3, (0, 2))]:
        ctx.add("ranges.n%d.points%s" % (nr, "".join(map(str, pts))), h_ranges, {"nranges": nr, "points": list(pts)}, modules=mods,
                functions=fa, bounds={"ranges": nr, "value": "symbolic", "range ends": "symbolic (lo <= hi)"})
    ctx.add("ranges.constructor", h_range_ctor, {}, modules=mods, functions=fa, bounds={})
    for shape in ("scalar", "flat", "nested"):
        ctx.add("validate_parameters.%s" % shape, h_validate, {"shape": shape}, modules=mods, functions=fa,
                bounds={"argument": shape, "allowed": "one symbolic interval and one symbolic point"})
    fb = ["compilers.tdm.Borealis.update_params", "Borealis._replace_loop_offset_params"]
    T = 38 if not ctx.thorough else 80
    for user in itertools.product((False, True), repeat=3):
        if all(user):
            continue
        ctx.add("borealis.update_params.user%s" % "".join("1" if u else "0" for u in user), h_borealis, {"T": T, "user": list(user)},
                modules=mods, functions=fb,
                bounds={"timebins": T, "loops": 3, "delays": [1, 6, 36], "loop offsets": "symbolic", "user phases": "symbolic",
                        "pi": "the float constant the code uses (an exact rational)"}, validate_points=2)
    fc = ["Program.assert_modes", "TDMProgram.assert_modes"]
    fam = [[], [("fock", [0, 1, 2, 3])], [("fock", [0, 1]), ("homodyne", [2])], [("x", [0]), ("homodyne", [1]), ("heterodyne", [2, 3])],
           [("hd", [0, 1]), ("fock", [2]), ("x", [3])], [("heterodyne", [0]), ("hd", [1])]]
    for i, meas in enumerate(fam):
        ctx.add("assert_modes.%d" % i, h_assert_modes, {"meas": meas}, modules=mods, functions=fc,
                bounds={"modes": 4, "measurements": repr(meas), "limits": "symbolic in [0, 8]"}, validate_points=2)
    for N, T_ in ((2, 3), (3, 5)):
        ctx.add("tdm_assert_modes.N%dT%d" % (N, T_), h_tdm_assert_modes, {"N": N, "T": T_}, modules=mods, functions=fc,
                bounds={"concurrent": N, "timebins": T_, "device shape": "symbolic"}, validate_points=2)
