"""C13: a time-domain program denotes its explicit loop"""
import itertools
import numpy as np

from symx import fn
from symx.symarray import sarray, szeros
from . import common as C
from . import frontend as F
from . import c03, xhrun


def mods():
    import strawberryfields.ops as ops
    import strawberryfields.tdm.program as tp
    import strawberryfields.program as program
    return C.gauss_modules() + [ops, tp, program]


# loop-body templates: list of (op name, parameter spec, slots); parameter spec entries: ("loop", k) = k-th loop variable,
# ("sym", name) = a fixed symbolic parameter, float = literal
def bodies(N):
    last = N - 1
    B = {
        "S.BS.M": [("Sgate", [("sym", "r"), 0.0], [last]), ("BSgate", [("loop", 0), 0.0], [0, last] if N == 2 else [last - 1, last]),
                   ("MeasureHomodyne", [("loop", 1)], [0])],
        "S.BS.R.M": [("Sgate", [("sym", "r"), 0.0], [last]), ("BSgate", [("loop", 0), ("sym", "phi")], [0, last]),
                     ("Rgate", [("loop", 1)], [last]), ("MeasureHomodyne", [("loop", 2)], [0])],
        "two_loops": [("Sgate", [("sym", "r"), 0.0], [last]), ("BSgate", [("loop", 0), 0.0], [last - 1, last]),
                      ("BSgate", [("loop", 1), 0.0], [0, last]), ("MeasureHomodyne", [("loop", 2)], [0])],
    }
    if N == 2:
        del B["two_loops"]
    return B


def nloops(body):
    return 1 + max(p[1] for _, ps, _ in body for p in ps if isinstance(p, tuple) and p[0] == "loop")


def big_backend(g, base, total):
    """Gaussian backend on `total` modes: the first modes carry the state of `base`, the rest is vacuum"""
    from strawberryfields.backends.gaussianbackend.backend import GaussianBackend
    from strawberryfields.backends.gaussianbackend.gaussiancircuit import GaussianModes
    be = GaussianBackend()
    st = GaussianModes.__new__(GaussianModes)
    n = base.circuit.nlen
    st.hbar, st.nlen, st.active = 2, total, list(range(total))
    if g.sym:
        st.nmat, st.mmat, st.mean = szeros((total, total)), szeros((total, total)), szeros((total,))
    else:
        st.nmat, st.mmat, st.mean = (np.zeros((total, total), dtype=complex), np.zeros((total, total), dtype=complex),
                                     np.zeros(total, dtype=complex))
    st.nmat[:n, :n] = base.circuit.nmat
    st.mmat[:n, :n] = base.circuit.mmat
    st.mean[:n] = base.circuit.mean
    be.circuit = st
    be._init_modes = total
    return be


def h_loop(g, N, T, body_name, shift):
    """unrolled (register-shifting) program == explicit loop with a fresh mode per pulse: every measurement is handed the
    same (mean, covariance) and the unmeasured pulses end in the same state"""
    import strawberryfields as sf
    from strawberryfields import ops
    body = bodies(N)[body_name]
    L = nloops(body)
    # gate parameters are assumed non-zero: Gate.apply skips a gate whose first parameter is exactly 0 (checked on its
    # own in C01/C02), and every such test would double the number of paths without changing the loop structure
    arrays = [[g.real("p%d_%d" % (k, t), nonzero=True) for t in range(T)] for k in range(L)]
    fixed = {}

    def val(p, t):
        if isinstance(p, tuple) and p[0] == "loop":
            return arrays[p[1]][t]
        if isinstance(p, tuple):
            if p[1] not in fixed:
                fixed[p[1]] = g.real(p[1], nonzero=True)
            return fixed[p[1]]
        return p
    prog = sf.TDMProgram(N=N)
    with prog.context(*arrays, shift=shift) as (lp, q):
        for opn, ps, slots in body:
            pars = [lp[p[1]] if (isinstance(p, tuple) and p[0] == "loop") else val(p, 0) for p in ps]
            getattr(ops, opn)(*pars) | tuple(q[s] for s in slots)
    rolled = list(prog.circuit)
    prog.unroll(shots=1)
    outcomes = []
    log = []
    calls = [0]

    def mvn(mean, cov, size=None):
        k = calls[0]
        calls[0] += 1
        while len(outcomes) <= k:
            outcomes.append([g.real("m%d_x" % len(outcomes)), g.real("m%d_p" % len(outcomes))])
        log.append((mean, cov))
        o = sarray([outcomes[k]]) if g.sym else np.array([outcomes[k]])
        return o if size is not None else o[0]
    g.random_handler("multivariate_normal", mvn)
    base = C.gauss_backend(g, N)
    # run 1: the real unrolled circuit on N modes
    be1 = c03.clone_gauss(base)
    F.apply_cmds(prog.circuit, be1)
    log1 = list(log)
    # run 2: explicit loop, pulse t+j sits in slot j during time bin t
    del log[:]
    calls[0] = 0
    total = T + N - 1
    be2 = big_backend(g, base, total)
    from strawberryfields.program_utils import RegRef
    regs = [RegRef(i) for i in range(total)]
    for t in range(T):
        for opn, ps, slots in body:
            op = getattr(ops, opn)(*[val(p, t) for p in ps])
            op.apply([regs[t + s] for s in slots], be2)
    log2 = list(log)
    g.fact("same number of measurements", len(log1) == len(log2) == T, detail="%d %d" % (len(log1), len(log2)))
    for k, ((m1, c1), (m2, c2)) in enumerate(zip(log1, log2)):
        g.eq("bin%d.born.mean" % k, m1, m2)
        g.eq("bin%d.born.cov" % k, c1, c2)
    # unmeasured pulses: physical mode (j + T - 1) mod N of run 1 holds pulse T - 1 + j of run 2 (j = 1..N-1)
    phys = [(j + T - 1) % N for j in range(1, N)]
    puls = [T - 1 + j for j in range(1, N)]
    c1_, c2_ = be1.circuit, be2.circuit
    g.eq("final.mean", c1_.mean[phys], c2_.mean[puls])
    g.eq("final.N", c1_.nmat[np.ix_(phys, phys)], c2_.nmat[np.ix_(puls, puls)])
    g.eq("final.M", c1_.mmat[np.ix_(phys, phys)], c2_.mmat[np.ix_(puls, puls)])
    # run 3: the real space-unrolled circuit (one mode per pulse) on T+N-1 modes
    prog.roll()
    prog.space_unroll(shots=1)
    g.fact("space_unroll: one mode per pulse", prog.num_subsystems == total, detail=str(prog.num_subsystems))
    del log[:]
    calls[0] = 0
    be3 = big_backend(g, base, total)
    F.apply_cmds(prog.circuit, be3)
    log3 = list(log)
    g.fact("space-unrolled: same number of measurements", len(log3) == T, detail=str(len(log3)))
    for k, ((m3, c3), (m2, c2)) in enumerate(zip(log3, log2)):
        g.eq("space.bin%d.born.mean" % k, m3, m2)
        g.eq("space.bin%d.born.cov" % k, c3, c2)
    g.eq("space.final.mean", be3.circuit.mean[puls], c2_.mean[puls])
    g.eq("space.final.N", be3.circuit.nmat[np.ix_(puls, puls)], c2_.nmat[np.ix_(puls, puls)])
    g.eq("space.final.M", be3.circuit.mmat[np.ix_(puls, puls)], c2_.mmat[np.ix_(puls, puls)])
    # roll back: circuit and register exactly as before
    prog.roll()
    g.fact("roll restores the circuit", len(prog.circuit) == len(rolled) and all(a is b for a, b in zip(prog.circuit, rolled)))
    g.fact("roll restores the register", prog.num_subsystems == N and prog.init_num_subsystems == N and not prog.is_unrolled)


def _tdm_template(N, T):
    import strawberryfields as sf
    from strawberryfields import ops
    arrays = [[0.1 * (t + 1) for t in range(T)], [0.2 * (t + 1) for t in range(T)]]
    prog = sf.TDMProgram(N=N)
    with prog.context(*arrays) as (lp, q):
        ops.Sgate(0.5, 0.0) | q[N - 1]
        ops.BSgate(lp[0], 0.0) | (q[0], q[N - 1])
        ops.MeasureHomodyne(lp[1]) | q[0]
    return prog


def _circuit_signature(prog):
    return [(type(c.op).__name__, [r.ind for r in c.reg], [float(x) for x in c.op.p]) for c in prog.circuit]


def h_history(g, N, T, calls_seq):
    """every sequence of unroll / space_unroll / roll calls leaves the expected circuit form -- the same circuit a fresh
    program gives when unrolled directly -- and roll restores everything"""
    prog = _tdm_template(N, T)
    rolled = list(prog.circuit)
    n0, i0 = prog.num_subsystems, prog.init_num_subsystems
    for c in calls_seq:
        if c == "roll":
            prog.roll()
            g.fact("after roll: original circuit", len(prog.circuit) == len(rolled) and all(a is b for a, b in zip(prog.circuit, rolled)))
            g.fact("after roll: original register", prog.num_subsystems == n0 and prog.init_num_subsystems == i0 and
                   [r.ind for r in prog.register] == list(range(n0)) and not prog.is_unrolled)
        elif c[0] == "unroll":
            try:
                prog.unroll(shots=c[1])
            except ValueError:
                g.fact("unroll refuses a space-unrolled program", prog.space_unrolled_circuit is not None)
                continue
            g.fact("after unroll(%d): %d commands" % (c[1], 3 * T * c[1]), len(prog.circuit) == 3 * T * c[1],
                   detail=str(len(prog.circuit)))
            fresh = _tdm_template(N, T)
            fresh.unroll(shots=c[1])
            g.fact("unroll(%d) after this history == unroll(%d) of a fresh program" % (c[1], c[1]),
                   _circuit_signature(prog) == _circuit_signature(fresh))
            g.fact("after unroll: register size unchanged", prog.num_subsystems == n0)
        elif c[0] == "space_unroll":
            try:
                prog.space_unroll(shots=c[1])
            except ValueError:
                g.fact("space_unroll refuses an unrolled program", prog.unrolled_circuit is not None)
                continue
            g.fact("after space_unroll: T+N-1 modes", prog.num_subsystems == T + N - 1, detail=str(prog.num_subsystems))
            fresh = _tdm_template(N, T)
            fresh.space_unroll(shots=c[1])
            g.fact("space_unroll after this history == space_unroll of a fresh program", _circuit_signature(prog) == _circuit_signature(fresh))


def build(ctx):
    fns = ["TDMProgram.context", "TDMProgram.__exit__", "TDMProgram.unroll", "TDMProgram._unroll_program", "TDMProgram.apply_op",
           "TDMProgram.roll", "tdm.program.shift_by", "tdm.program._get_modes", "Measurement.apply", "GaussianBackend.measure_homodyne"]
    cases = [(2, 2), (2, 3), (3, 2)] if not ctx.thorough else [(2, 2), (2, 3), (2, 4), (3, 2), (3, 3), (3, 4)]
    for N, T in cases:
        for body_name in bodies(N):
            for shift in ("default", 1):
                if not ctx.thorough and (T == 3 and body_name != "S.BS.M"):
                    continue
                if ctx.thorough and ((N, T) == (3, 4) or ((N, T) == (3, 3) and body_name == "two_loops")):
                    continue        # (N=3 with T=4, and two loops at N=3, T=3: more than 15 minutes per job -> outside)
                ctx.add("loop.N%d.T%d.%s.shift=%s" % (N, T, body_name, shift), h_loop,
                        {"N": N, "T": T, "body_name": body_name, "shift": shift}, modules=mods, functions=fns,
                        bounds={"concurrent_modes": N, "timebins": T, "shots": 1, "bands": 1, "shift": shift,
                                "initial_state": "arbitrary symbolic state of the N register modes"}, validate_points=1)
    seqs = []
    alphabet = ["roll", ("unroll", 1), ("unroll", 2), ("space_unroll", 1)]
    for l in (1, 2, 3):
        seqs += list(itertools.product(alphabet, repeat=l))
    if not ctx.thorough:
        seqs = [s for s in seqs if len(s) <= 2 or s[-1] == "roll" or (s[1] == "roll" and s[0] == s[2])]
    for s in seqs:
        nm = "|".join(x if isinstance(x, str) else "%s(%d)" % x for x in s)
        for (N_, T_) in ((2, 3), (3, 4)):
            ctx.add("history.N%dT%d.%s" % (N_, T_, nm), h_history,
                    {"N": N_, "T": T_, "calls_seq": [list(x) if not isinstance(x, str) else x for x in s]},
                    modules=mods, functions=fns + ["TDMProgram.space_unroll"],
                    bounds={"concurrent_modes": N_, "timebins": T_, "calls": len(s)}, validate_points=0)


def xh(ctx):
    checks = ["check_reshape_single_band", "check_reshape_two_bands", "check_mode_order"]
    tmo = 400 if not ctx.thorough else 2000
    return [xhrun.run("xh/c13_samples.py", checks, ["twin_reshape"], tmo, ctx.prop)]
