"""C14: save/load round trip (Blackbird and XIR) yields a program that computes the same thing"""
import itertools
import numpy as np

from symx import fn
from symx.symarray import sarray
from . import common as C
from . import frontend as F
from . import c03, c09


def mods():
    return c09.mods()


def serialise_load(prog, fmt):
    import strawberryfields as sf
    import blackbird
    import xir
    if fmt == "blackbird":
        text = sf.io.to_blackbird(prog).serialize()
        return sf.io.to_program(blackbird.loads(text)), text
    add_decl = fmt == "xir_decl"
    text = sf.io.to_xir(prog, add_decl=add_decl).serialize()
    return sf.io.to_program(xir.parse_script(text)), text


# templates: name -> builder(ops, prog, q, x, y) ; x, y are FreeParameters of the program
def templates():
    T = {}
    T["R.literal"] = lambda o, p, q, x, y: o.Rgate(0.3) | q[0]
    T["R.H.literal"] = lambda o, p, q, x, y: o.Rgate(0.3).H | q[0]
    T["R.free"] = lambda o, p, q, x, y: o.Rgate(x) | q[1]
    T["R.H.free"] = lambda o, p, q, x, y: o.Rgate(x).H | q[1]
    T["S.expr"] = lambda o, p, q, x, y: o.Sgate(x * 2 - y, 0.4) | q[0]
    T["D.expr2"] = lambda o, p, q, x, y: o.Dgate(x / 2 + y * y, 0.1) | q[1]
    T["BS.order"] = lambda o, p, q, x, y: o.BSgate(0.4, x) | (q[1], q[0])
    T["BS.H"] = lambda o, p, q, x, y: o.BSgate(0.4, 0.3).H | (q[0], q[1])
    T["S2"] = lambda o, p, q, x, y: o.S2gate(0.3, y) | (q[0], q[1])
    T["MZ"] = lambda o, p, q, x, y: o.MZgate(x, 0.2) | (q[0], q[1])
    T["X.Z"] = lambda o, p, q, x, y: (o.Xgate(x) | q[0], o.Zgate(0.2) | q[1])
    T["CX"] = lambda o, p, q, x, y: o.CXgate(0.4) | (q[1], q[0])
    T["Loss"] = lambda o, p, q, x, y: o.LossChannel(0.8) | q[0]
    T["ThermalLoss"] = lambda o, p, q, x, y: o.ThermalLossChannel(0.8, 0.2) | q[1]
    T["preps"] = lambda o, p, q, x, y: (o.Coherent(0.5, 0.2) | q[0], o.Squeezed(0.3, x) | q[1])
    T["Thermal.Vac"] = lambda o, p, q, x, y: (o.Thermal(0.4) | q[0], o.Vacuum() | q[1])
    T["measured.expr"] = lambda o, p, q, x, y: (o.MeasureX | q[1], o.Rgate(q[1].par * 2 + 0.1) | q[0])
    T["measured.D"] = lambda o, p, q, x, y: (o.MeasureHomodyne(0.3) | q[1], o.Dgate(q[1].par, 0.0) | q[0])
    T["homodyne.select"] = lambda o, p, q, x, y: (o.S2gate(0.4) | (q[0], q[1]), o.MeasureHomodyne(0.2, select=0.3) | q[1])
    T["heterodyne.select"] = lambda o, p, q, x, y: (o.S2gate(0.4) | (q[0], q[1]), o.MeasureHeterodyne(select=0.1 + 0.2j) | q[1])
    T["homodyne.select0"] = lambda o, p, q, x, y: (o.S2gate(0.4) | (q[0], q[1]), o.MeasureHomodyne(0.2, select=0) | q[1])
    T["MeasureP.select0.0"] = lambda o, p, q, x, y: (o.S2gate(0.4) | (q[0], q[1]), o.MeasureHomodyne(np.pi / 2, select=0.0) | q[0])
    T["heterodyne.select0"] = lambda o, p, q, x, y: (o.S2gate(0.4) | (q[0], q[1]), o.MeasureHeterodyne(select=0j) | q[1])
    T["zero.params"] = lambda o, p, q, x, y: (o.Sgate(0.0, 0.3) | q[0], o.BSgate(0.0, 0.0) | (q[0], q[1]), o.Dgate(0.0) | q[1], o.Rgate(0) | q[0])
    T["negative.params"] = lambda o, p, q, x, y: (o.Sgate(-0.3, -0.2) | q[0], o.BSgate(-0.4, -1.0) | (q[0], q[1]), o.Zgate(-0.5) | q[1])
    T["sequence"] = lambda o, p, q, x, y: (o.Sgate(0.2) | q[0], o.BSgate(x, y) | (q[0], q[1]), o.Rgate(0.1).H | q[1], o.LossChannel(0.9) | q[0])
    return T


def structure(prog):
    out = []
    for c in prog.circuit:
        out.append((type(c.op).__name__, [r.ind for r in c.reg], bool(getattr(c.op, "dagger", False)),
                    getattr(c.op, "select", None), getattr(c.op, "dark_counts", None)))
    return out


def h_roundtrip(g, name, fmt):
    import strawberryfields as sf
    from strawberryfields import ops
    n = 2
    prog = sf.Program(n)
    x, y = prog.params("x", "y")
    with prog.context as q:
        templates()[name](ops, prog, q, x, y)
    try:
        loaded, text = serialise_load(prog, fmt)
    except Exception as e:        # noqa
        g.fact("serialise + load succeeds", False, detail="%s: %s" % (type(e).__name__, str(e)[:200]))
        return
    if not all(not isinstance(p_, str) for c in loaded.circuit for p_ in c.op.p):
        g.fact("symbolic parameters are loaded as symbolic parameters (not as strings)", False, detail=text)
        return
    g.fact("same number of commands", len(loaded.circuit) == len(prog.circuit), detail=text)
    g.fact("same operations on the same modes", [(a, b) for a, b, _, _, _ in structure(loaded)] == [(a, b) for a, b, _, _, _ in structure(prog)],
           detail=text)
    g.fact("post-selection survives (a selected measurement stays selected)",
           [c[3] is None for c in structure(loaded)] == [c[3] is None for c in structure(prog)], detail=text)
    # same action: free parameters bound to shared symbols, shared measurement outcomes, arbitrary prior state
    vx, vy = g.real("x"), g.real("y")
    outcomes = []
    calls = [0]

    def mvn(mean, cov, size=None):
        k = calls[0]
        calls[0] += 1
        while len(outcomes) <= k:
            outcomes.append([g.real("m%d_x" % len(outcomes)), g.real("m%d_p" % len(outcomes))])
        o = sarray([outcomes[k]]) if g.sym else np.array([outcomes[k]])
        return o if size is not None else o[0]

    def normal(loc=0.0, scale=1.0, size=None):
        k = calls[0]
        calls[0] += 1
        while len(outcomes) <= k:
            outcomes.append([g.real("m%d_x" % len(outcomes)), g.real("m%d_p" % len(outcomes))])
        return outcomes[k][1]
    g.random_handler("multivariate_normal", mvn)
    g.random_handler("normal", normal)
    base = C.gauss_backend(g, n)
    finals = []
    for p in (prog, loaded):
        calls[0] = 0
        for par_name, val in (("x", vx), ("y", vy)):
            if par_name in p.free_params:
                p.free_params[par_name].val = val
        c09.repoint(p)
        eng = c09.make_engine(g, base)
        eng.run(p, modes=[])
        c = eng.backend.circuit
        finals.append((c.nmat.copy(), c.mmat.copy(), c.mean.copy()))
    F.eq_gauss_state(g, "same action", finals[1], finals[0])


def h_options(g, fmt):
    """target, shots, cutoff_dim survive the round trip"""
    import strawberryfields as sf
    from strawberryfields import ops
    prog = sf.Program(2)
    with prog.context as q:
        ops.Sgate(0.3) | q[0]
        ops.MeasureFock(dark_counts=[0.1, 0.2]) | (q[0], q[1])
    prog.run_options = {"shots": 7}
    prog.backend_options = {"cutoff_dim": 5}
    prog._target = "gaussian"
    loaded, text = serialise_load(prog, fmt)
    g.fact("target", loaded.target == "gaussian", detail="%r\n%s" % (loaded.target, text))
    g.fact("shots", loaded.run_options.get("shots") == 7, detail=repr(loaded.run_options))
    g.fact("cutoff_dim", loaded.backend_options.get("cutoff_dim") == 5, detail=repr(loaded.backend_options))
    g.fact("dark_counts", list(loaded.circuit[-1].op.dark_counts) == [0.1, 0.2], detail=repr(loaded.circuit[-1].op.dark_counts))
    g.fact("measured modes", [r.ind for r in loaded.circuit[-1].reg] == [0, 1])


def h_tdm(g, fmt):
    """time-domain program: per-time-bin arrays survive and the unrolled circuits agree command by command"""
    import strawberryfields as sf
    from strawberryfields import ops
    arrays = [[0.1, 0.2, 0.3], [0.4, 0.5, 0.6]]
    prog = sf.TDMProgram(N=2)
    with prog.context(*arrays) as (p, q):
        ops.Sgate(0.5, 0.0) | q[1]
        ops.BSgate(p[0], 0.0) | (q[0], q[1])
        ops.MeasureHomodyne(p[1]) | q[0]
    try:
        loaded, text = serialise_load(prog, fmt)
    except Exception as e:        # noqa
        g.fact("serialise + load succeeds", False, detail="%s: %s" % (type(e).__name__, str(e)[:200]))
        return
    g.fact("is a TDM program", isinstance(loaded, sf.TDMProgram), detail=text)
    g.fact("same arrays", [list(map(float, a)) for a in loaded.tdm_params] == arrays, detail=repr(getattr(loaded, "tdm_params", None)))
    g.fact("same N", list(loaded.N) == [2])
    prog.unroll(1)
    loaded.unroll(1)
    g.fact("same unrolled circuit",
           [(type(c.op).__name__, [r.ind for r in c.reg], [float(x) for x in c.op.p]) for c in loaded.circuit] ==
           [(type(c.op).__name__, [r.ind for r in c.reg], [float(x) for x in c.op.p]) for c in prog.circuit])


def build(ctx):
    fns = ["io.to_blackbird", "io.from_blackbird", "io.to_xir", "io.from_xir", "io.to_program", "parameters.par_convert",
           "blackbird parser (native)", "xir parser (native)", "LocalEngine.run", "GaussianBackend.*"]
    ctx.outside += ["'for all numeric literals': a literal must be concrete to be printed; one representative per template",
                    "operation classes no available interpreter covers (Vgate, Kgate, cat/GKP/bosonic preparations, Ket/DensityMatrix)",
                    "programs with unused trailing modes"]
    for fmt in ("blackbird", "xir", "xir_decl"):
        for name in templates():
            ctx.add("roundtrip.%s.%s" % (fmt, name), h_roundtrip, {"name": name, "fmt": fmt}, modules=mods, functions=fns,
                    bounds={"format": fmt, "modes": 2, "free_parameters": "symbolic", "outcomes": "symbolic", "state": "arbitrary"},
                    validate_points=1)
        ctx.add("options.%s" % fmt, h_options, {"fmt": fmt}, modules=mods, functions=fns, bounds={"format": fmt}, validate_points=0)
        ctx.add("tdm.%s" % fmt, h_tdm, {"fmt": fmt}, modules=mods, functions=fns, bounds={"format": fmt, "N": 2, "timebins": 3},
                validate_points=0)
