"""C15: physical predictions do not depend on hbar (dimensionful inputs rescaled by their documented units)"""
import numpy as np

from symx import fn
from symx.symarray import sarray
from . import common as C
from . import frontend as F
from . import c03, c16


def mods():
    import strawberryfields.backends.states as st
    import strawberryfields.ops as ops
    return C.gauss_modules() + [st, ops]


def h_frontend(g, case, m, n):
    """the hbar-free backend sees the same thing whatever hbar is, when x, p, select scale as sqrt(hbar), V as hbar"""
    import strawberryfields as sf
    from strawberryfields import ops
    h = g.real("hbar", lo=0, lo_strict=True)
    g.patch(sf, "hbar", h)
    rt = fn.sqrt(h)
    be = C.gauss_backend(g, n)
    be2 = c03.clone_gauss(be)
    prog = sf.Program(n)
    if case in ("Xgate", "Zgate"):
        x0 = g.real("x0")
        with prog.context as q:
            getattr(ops, case)(x0 * rt) | q[m]
        cp = prog.compile(compiler="gaussian")
        F.apply_cmds(cp.circuit, be)
        # hbar-free reference: displacement by x0/sqrt(2) along x (X) or p (Z)
        be2.displacement(x0 / fn.sqrt(2 + 0 * x0), 0 * x0 if case == "Xgate" else g.pi / 2, m)
        F.eq_gauss_state(g, case, F.gauss_final(be), F.gauss_final(be2))
    elif case == "Vgate":
        # V(gamma) = exp(i gamma x^3 / (3 hbar)) with x ~ sqrt(hbar): gamma scales as 1/sqrt(hbar).  The (hbar = 2) backend
        # kernel must be handed gamma0/sqrt(2) whatever hbar is.  Only Fock-type backends implement the kernel: the
        # call is recorded instead
        g0 = g.real("gamma0", nonzero=True)
        calls = []

        class Rec:
            def cubic_phase(self, gamma, mode):
                calls.append((gamma, mode))
        with prog.context as q:
            ops.Vgate(g0 / rt) | q[m]
        prog.circuit[0].op.apply(prog.circuit[0].reg, Rec())
        g.fact("one cubic_phase call on the target mode", len(calls) == 1 and calls[0][1] == m, detail=repr([c[1] for c in calls]))
        g.eq("cubic_phase argument in backend units", calls[0][0] * calls[0][0] * 2, g0 * g0)
        g.holds("sign kept", (calls[0][0] * g0 > 0) if g.sym else bool(calls[0][0] * g0 > 0))
        with sf.Program(n).context as q2:
            opd = ops.Vgate(g0 / rt).H
        del calls[:]
        opd.apply([prog.register[m]], Rec())
        g.eq("inverse gate: opposite argument", calls[0][0], -(g0 / rt) * fn.sqrt(h / 2))
    elif case == "MeasureHomodyne.select":
        s0, phi = g.real("s0"), g.real("phi")
        log = []
        from . import c06
        pout = g.real("p_out")
        c06.rng_recorder(g, log, [0 * pout, pout])
        with prog.context as q:
            ops.MeasureHomodyne(phi, select=s0 * rt) | q[m]
        val = prog.circuit[0].op.apply(prog.circuit[0].reg, be)
        be2.measure_homodyne(phi, m, select=s0 * fn.sqrt(2 + 0 * s0))
        F.eq_gauss_state(g, "conditional", F.gauss_final(be), F.gauss_final(be2))
        g.eq("returned/sqrt(hbar)", val[0, 0], s0 * rt)
    elif case == "MeasureHomodyne.sample":
        phi = g.real("phi")
        ox, op_ = g.real("out_x"), g.real("out_p")
        from . import c06
        log = []
        c06.rng_recorder(g, log, [ox, op_])
        with prog.context as q:
            ops.MeasureHomodyne(phi) | q[m]
        val = prog.circuit[0].op.apply(prog.circuit[0].reg, be)
        # backend outcome ox is the hbar=2 quadrature; the user sees it in units of sqrt(hbar): ox*sqrt(hbar/2)
        g.eq("sample^2*2", val[0, 0] * val[0, 0] * 2, ox * ox * h)
        g.holds("sample has the sign of the backend outcome", (val[0, 0] * ox >= 0) if g.sym else bool(val[0, 0] * ox >= 0))
        g.eq("q.val", prog.register[m].val, val[0, 0])
    elif case == "Gaussian":
        import strawberryfields.decompositions as dec
        k = 1
        # positive definite by construction (Cholesky factor with positive diagonal)
        l00, l10, l11 = g.real("l00", lo=0.3), g.real("l10"), g.real("l11", lo=0.3)
        V0 = fn.asarr([[l00 * l00, l00 * l10], [l00 * l10, l10 * l10 + l11 * l11]], l00 if g.sym else None)
        r0 = g.rvec("r", 2 * k)
        if g.sym:
            g.patch(dec, "williamson", lambda V, tol=1e-11: (np.identity(V.shape[0]), np.identity(V.shape[0])))
            g.note("stub: decompositions.williamson inside Gaussian.__init__ (factors are not used with decomp=False)")
        with prog.context as q:
            ops.Gaussian(V0 * (h / 2), r0 * fn.sqrt(h / 2), decomp=False) | q[m]
        prog.circuit[0].op.apply(prog.circuit[0].reg, be)
        be2.prepare_gaussian_state(r0, V0, [m])
        F.eq_gauss_state(g, "prepared", F.gauss_final(be), F.gauss_final(be2))
    else:
        raise KeyError(case)


def h_state_dimensionless(g, n):
    """dimensionless observables of a Gaussian / bosonic state object do not depend on hbar"""
    import strawberryfields as sf
    from strawberryfields.backends.states import BaseGaussianState, BaseBosonicState
    h = g.real("hbar", lo=0, lo_strict=True)
    g.patch(sf, "hbar", h)
    mu, V = c16.gauss_data(g, n)
    st = BaseGaussianState((mu, V), n)
    for m in range(n):
        mean, var = st.mean_photon(m)
        tr = V[m, m] + V[m + n, m + n]
        sq = mu[m] * mu[m] + mu[m + n] * mu[m + n]
        g.eq("mean_photon[%d]" % m, mean, (tr + sq) / 4 - 1 / 2 + 0 * tr)
        blk = V[np.ix_([m, m + n], [m, m + n])]
        mv = fn.asarr([mu[m], mu[m + n]], V)
        g.eq("var_photon[%d]" % m, var, (np.trace(blk @ blk) + 2 * mv @ blk @ mv) / 8 - 1 / 4 + 0 * tr)
    idx = c16.xxpp_to_xpxp_idx(n)
    if g.sym:
        bdata = (sarray([np.asarray(mu[idx].view(np.ndarray))]), sarray([np.asarray(V[np.ix_(idx, idx)].view(np.ndarray))]), sarray([1]))
    else:
        bdata = (np.array([mu[idx]], dtype=complex), np.array([V[np.ix_(idx, idx)]], dtype=complex), np.array([1.0 + 0j]))
    bs = BaseBosonicState(bdata, n, 1)
    for m in range(n):
        mean, var = bs.mean_photon(m)
        tr = V[m, m] + V[m + n, m + n]
        sq = mu[m] * mu[m] + mu[m + n] * mu[m + n]
        g.eq("bosonic.mean_photon[%d]" % m, mean, (tr + sq) / 4 - 1 / 2 + 0 * tr)
    if n == 1:
        g.assume(fn.det(V) > 0 if g.sym else np.linalg.det(V) > 0)
        # parity and vacuum fidelity in backend (hbar = 2) units
        Vi = fn.inv(V)
        e = fn.exp(-(mu @ Vi @ mu) / 2)
        par = st.parity_expectation([0])
        g.eq("parity^2", par * par * fn.det(V), e * e)
        bpar = bs.parity_expectation([0])
        g.eq("bosonic.parity^2", bpar * bpar * fn.det(V), e * e)
        W = V + fn.eye(2, V)
        f = bs.fidelity_vacuum()
        ef = fn.exp(-(mu @ fn.inv(W) @ mu) / 2)
        g.eq("bosonic.fidelity_vacuum^2", f * f * fn.det(W), 4 * ef * ef)


def build(ctx):
    n = 2
    for case in ("Xgate", "Zgate", "Vgate", "MeasureHomodyne.select", "MeasureHomodyne.sample", "Gaussian"):
        for m in range(n):
            ctx.add("frontend.%s[%d]" % (case, m), h_frontend, {"case": case, "m": m, "n": n}, modules=mods,
                    functions=["ops.Xgate._decompose", "ops.Zgate._decompose", "ops.Vgate._apply", "Gate.apply", "ops.MeasureHomodyne._apply", "ops.Gaussian.__init__/_apply",
                               "GaussianBackend.*"],
                    bounds={"modes": n, "hbar": "symbolic > 0", "state": "arbitrary"})
    for nn in (1, 2):
        ctx.add("state.dimensionless.n%d" % nn, h_state_dimensionless, {"n": nn}, modules=c16.state_modules,
                functions=["BaseGaussianState.{mean_photon,parity_expectation}", "BaseBosonicState.{mean_photon,parity_expectation,fidelity_vacuum}"],
                bounds={"modes": nn, "hbar": "symbolic > 0"})
    ctx.add("gaussian_state.scaling.n2", c16.h_gauss_state, {"n": 2, "hbar_sym": True}, modules=c16.state_modules,
            functions=["BaseGaussianState.*", "BaseBosonicState.*"], bounds={"modes": 2, "hbar": "symbolic > 0"})
    for (nf, D, pure) in [(2, 2, True), (2, 2, False)] + ([(2, 3, True)] if ctx.thorough else []):
        ctx.add("fock_state.scaling.n%dD%d%s" % (nf, D, "pure" if pure else "mixed"), c16.h_fock_state,
                {"n": nf, "D": D, "pure": pure, "hbar_sym": True}, modules=lambda: c16.state_modules() + C.fock_modules(),
                functions=["BaseFockState.quad_expectation", "BaseFockState.*"], bounds={"modes": nf, "cutoff": D, "hbar": "symbolic > 0"})
