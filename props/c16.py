"""C16: the observables of a state object are mutually consistent (and answer for the modes asked)"""
import itertools
import numpy as np

from symx import fn
from symx.symarray import sarray
from . import common as C
from . import fock_harness as FH


def state_modules():
    import strawberryfields.backends.states as st
    import thewalrus.symplectic as ws
    return [st, ws]


def gauss_data(g, n, name=""):
    """backend data of a Gaussian state: means (xxpp) and covariance (xxpp), hbar_backend = 2 units"""
    mu = g.rvec(name + "mu", 2 * n)
    V = g.rsymm(name + "V", 2 * n)
    return mu, V


def subsets(n):
    return [list(s) for r in range(1, n + 1) for s in itertools.combinations(range(n), r)]


def xxpp_to_xpxp_idx(n):
    return [q for i in range(n) for q in (i, i + n)]


def h_gauss_state(g, n, hbar_sym=False):
    import strawberryfields as sf
    from strawberryfields.backends.states import BaseGaussianState, BaseBosonicState
    h = g.real("hbar", lo=0, lo_strict=True) if hbar_sym else 2
    g.patch(sf, "hbar", h)
    mu, V = gauss_data(g, n)
    st = BaseGaussianState((mu, V), n)
    M, S = st.means(), st.cov()
    # scaling: means by sqrt(hbar/2), covariance by hbar/2
    g.eq("means.scale^2", M * M * 2, mu * mu * h)
    g.eq("cov.scale", S * 2, V * h)
    for modes in subsets(n):
        m_, c_ = st.reduced_gaussian(modes)
        ind = modes + [m + n for m in modes]
        g.eq("reduced%s.means" % modes, m_, M[ind])
        g.eq("reduced%s.cov" % modes, c_, S[np.ix_(ind, ind)])
    phi = g.real("phi")
    cph, sph = fn.cos(phi), fn.sin(phi)
    for m in range(n):
        x, p = M[m], M[m + n]
        vxx, vpp, vxp = S[m, m], S[m + n, m + n], S[m, m + n]
        mean, var = st.mean_photon(m)
        g.eq("mean_photon[%d]" % m, mean, (vxx + vpp + x * x + p * p) / (2 * h) - 1 / 2 + 0 * x)
        # the same number through the general quadratic-form method
        A = fn.zeros((2 * n, 2 * n), S).real if not g.sym else fn.zeros((2 * n, 2 * n), S)
        A[m, m] = 1 / (2 * h) + 0 * A[m, m]
        A[m + n, m + n] = 1 / (2 * h) + 0 * A[m, m]
        if g.sym or True:
            pm, pv = st.poly_quad_expectation(A, k=-0.5)
            g.eq("mean_photon[%d]==poly_quad" % m, pm, mean)
            g.eq("var_photon[%d]==poly_quad" % m, pv, var)
        ne = st.number_expectation([m])
        g.eq("number_expectation[%d]==mean_photon" % m, [ne[0], ne[1]], [mean, var])
        qm, qv = st.quad_expectation(m, phi)
        g.eq("quad_expectation[%d].mean" % m, qm, cph * x + sph * p)
        g.eq("quad_expectation[%d].var" % m, qv, cph * cph * vxx + 2 * cph * sph * vxp + sph * sph * vpp)
    # displacement
    al = st.displacement()
    for m in range(n):
        g.eq("displacement[%d]^2" % m, al[m] * al[m] * 2 * h, (M[m] + 1j * M[m + n]) * (M[m] + 1j * M[m + n]))
    # Gaussian vs single-peak bosonic object on the same data
    idx = xxpp_to_xpxp_idx(n)
    bmu = mu[idx]
    bV = V[np.ix_(idx, idx)]
    if g.sym:
        bdata = (sarray([np.asarray(bmu.view(np.ndarray))]), sarray([np.asarray(bV.view(np.ndarray))]), sarray([1]))
    else:
        bdata = (np.array([bmu], dtype=complex), np.array([bV], dtype=complex), np.array([1.0 + 0j]))
    bs = BaseBosonicState(bdata, n, 1)
    for m in range(n):
        a, b = st.mean_photon(m), bs.mean_photon(m)
        g.eq("gauss==bosonic.mean_photon[%d]" % m, b[0], a[0])
        g.eq("gauss==bosonic.var_photon[%d]" % m, b[1], a[1])
        a, b = st.quad_expectation(m, phi), bs.quad_expectation(m, phi)
        g.eq("gauss==bosonic.quad_expectation[%d]" % m, [b[0], b[1]], [a[0], a[1]])
    if n == 1:
        # (for n >= 2 the two classes order the 2n x 2n inverse differently; the resulting rational identity inside
        # the exponent is beyond the solvers' reach and is left to the n = 1 instance)
        full = list(range(n))
        g.assume(fn.det(V) > 0 if g.sym else np.linalg.det(V) > 0)
        pa, pb = st.parity_expectation(full), bs.parity_expectation(full)
        g.eq("gauss==bosonic.parity(all)^2", pb * pb, pa * pa)
    g.eq("gauss==bosonic.displacement", bs.displacement() * bs.displacement(), al * al)


def h_gauss_parity_subset(g, n, modes):
    """parity_expectation(modes) answers for exactly those modes: it equals the parity of the reduced state"""
    import strawberryfields as sf
    from strawberryfields.backends.states import BaseGaussianState
    mu, V = gauss_data(g, n)
    g.assume(fn.det(V) > 0 if g.sym else np.linalg.det(V) > 0)
    st = BaseGaussianState((mu, V), n)
    ind = modes + [m + n for m in modes]
    red = BaseGaussianState((mu[ind], V[np.ix_(ind, ind)]), len(modes))
    a = st.parity_expectation(modes)
    b = red.parity_expectation(list(range(len(modes))))
    g.eq("parity%s^2" % modes, a * a, b * b)


def h_bosonic_parity_subset(g, n, modes, J):
    from strawberryfields.backends.states import BaseBosonicState
    be = C.bosonic_backend(g, n, J=J, real_means=True, real_weights=True)
    c = be.circuit
    bs = BaseBosonicState((c.means, c.covs, c.weights), n, J)
    ind = sorted([2 * m for m in modes] + [2 * m + 1 for m in modes])
    for j in range(J):
        blk = c.covs[j][ind][:, ind]
        g.assume(fn.det(blk) > 0 if g.sym else np.linalg.det(blk).real > 0)
    red = BaseBosonicState((c.means[:, ind], c.covs[:, ind][:, :, ind], c.weights), len(modes), J)
    g.eq("parity%s" % modes, bs.parity_expectation(modes), red.parity_expectation(list(range(len(modes)))))
    w, m_, c_ = bs.reduced_bosonic(modes)
    g.eq("reduced%s.means" % modes, m_, bs.means()[:, ind])
    g.eq("reduced%s.covs" % modes, c_, bs.covs()[:, ind][:, :, ind])
    for m in modes:
        a = bs.mean_photon(m)
        b = red.mean_photon(modes.index(m))
        g.eq("mean_photon[%d]" % m, [a[0], a[1]], [b[0], b[1]])


def h_fock_state(g, n, D, pure, hbar_sym=False):
    import strawberryfields as sf
    from strawberryfields.backends.states import BaseFockState
    from strawberryfields.backends.fockbackend import ops as fo
    h = g.real("hbar", lo=0, lo_strict=True) if hbar_sym else 2
    g.patch(sf, "hbar", h)
    c = FH.fock_circuit(g, n, D, pure)
    data = c._state
    st = BaseFockState(data, n, pure, D)
    rho = fo.mix(data, n) if pure else data
    g.eq("dm", st.dm(), rho)
    tr = FH.ref_partial_trace(rho, n, D, list(range(n)))
    g.eq("trace", st.trace(), fn.real(tr))
    probs = st.all_fock_probs()
    tot = 0
    for occ in itertools.product(range(D), repeat=n):
        idx = tuple(x for v in occ for x in (v, v))
        g.eq("fock_prob%s" % (list(occ),), st.fock_prob(list(occ)), fn.real(rho[idx]))
        g.eq("all_fock_probs%s" % (list(occ),), probs[occ], fn.real(rho[idx]))
    for modes in subsets(n):
        if len(modes) == n:
            continue
        red = st.reduced_dm(modes)
        ref = FH.ref_partial_trace(rho, n, D, [m for m in range(n) if m not in modes])
        g.eq("reduced_dm%s" % modes, red, ref)
    phi = g.real("phi")
    for m in range(n):
        red = FH.ref_partial_trace(rho, n, D, [k for k in range(n) if k != m])
        mean, var = st.mean_photon(m)
        ref_mean = sum(k * fn.real(red[k, k]) for k in range(D))
        ref_sq = sum(k * k * fn.real(red[k, k]) for k in range(D))
        g.eq("mean_photon[%d]" % m, mean, ref_mean)
        g.eq("var_photon[%d]" % m, var, ref_sq - ref_mean * ref_mean)
        ne = st.number_expectation([m])
        g.eq("number_expectation[%d]" % m, [ne[0], ne[1]], [mean, var])
        par = st.parity_expectation([m])
        g.eq("parity[%d]" % m, par, sum((-1) ** k * fn.real(red[k, k]) for k in range(D)))
        # quadrature: <x_phi> = sqrt(hbar/2) tr(rho (a e^{-i phi} + a^+ e^{i phi}))
        qm, qv = st.quad_expectation(m, phi)
        acc = 0
        for k in range(1, D):
            acc = acc + fn.sqrt(k + 0 * phi) * (red[k, k - 1] * fn.expi(-phi) + red[k - 1, k] * fn.expi(phi))
        g.eq("quad_expectation[%d].mean^2" % m, qm * qm * 2, fn.real(acc) * fn.real(acc) * h)
        # variance: <x_phi^2> = (hbar/2) tr(rho (a^2 e^{-2i phi} + a^+2 e^{2i phi} + 2 a^+ a + 1)), the exact
        # operator restricted to the cutoff (the code squares a (D+5)-dimensional x_phi before truncating)
        em, ep = fn.expi(-phi), fn.expi(phi)
        acc2 = sum((2 * k + 1) * red[k, k] for k in range(D))
        for k in range(2, D):
            acc2 = acc2 + fn.sqrt(k * (k - 1) + 0 * phi) * (red[k, k - 2] * em * em + red[k - 2, k] * ep * ep)
        g.eq("quad_expectation[%d].var" % m, (qv + qm * qm) * 2, fn.real(acc2) * h)
    if n >= 2:
        for modes in ([0, 1], [1, 0]) + (([0, 2], [2, 1]) if n > 2 else ()):
            ne = st.number_expectation(list(modes))
            red = FH.ref_partial_trace(rho, n, D, [k for k in range(n) if k not in modes])
            if modes[0] > modes[1]:
                red = np.transpose(red, (2, 3, 0, 1))
            ref = sum(a * b * fn.real(red[a, a, b, b]) for a in range(D) for b in range(D))
            g.eq("number_expectation%s" % (list(modes),), ne[0], ref)
            par = st.parity_expectation(list(modes))
            g.eq("parity%s" % (list(modes),), par, sum((-1) ** (a + b) * fn.real(red[a, a, b, b]) for a in range(D) for b in range(D)))


def h_backend_state_modes(g, kind, modes, n, pure=False):
    """backend.state(modes) returns the requested modes, in the requested order, with their own data"""
    if kind == "gaussian":
        be = C.gauss_backend(g, n)
        mu, V = C.nm_to_phase(*C.gauss_snapshot(be))       # xpxp, hbar=2
        st = be.state(modes=list(modes))
        k = len(modes)
        M, S = st.means(), st.cov()                          # xxpp at sf.hbar = 2
        for a, ma in enumerate(modes):
            g.eq("means[%d]" % ma, [M[a], M[a + k]], [mu[2 * ma], mu[2 * ma + 1]])
            for b, mb in enumerate(modes):
                g.eq("cov[%d,%d]" % (ma, mb), [S[a, b], S[a, b + k], S[a + k, b], S[a + k, b + k]],
                     [V[2 * ma, 2 * mb], V[2 * ma, 2 * mb + 1], V[2 * ma + 1, 2 * mb], V[2 * ma + 1, 2 * mb + 1]])
        g.fact("mode names", [st._modemap[i] for i in range(k)] == ["q[%d]" % m for m in modes],
               detail=repr(st._modemap))
    elif kind == "fock":
        from . import c03
        from strawberryfields.backends.fockbackend import ops as fo
        be = c03.fock_backend(g, n, 2, pure=pure)
        if pure:
            psi = be.circuit._state.copy().reshape(-1)
            rho = FH.from_matrix(np.outer(psi, fn.conj(psi)), n, 2)
        else:
            rho = be.circuit._state.copy()
        st = be.state(modes=list(modes))
        # the object must know what it holds: a ket has one axis per mode, a density matrix two
        g.fact("is_pure matches the data held", np.ndim(st.data) == (len(modes) if st.is_pure else 2 * len(modes)),
               detail="is_pure=%r data.ndim=%d modes=%d" % (st.is_pure, np.ndim(st.data), len(modes)))
        if np.ndim(st.data) != (len(modes) if st.is_pure else 2 * len(modes)):
            return
        red = FH.ref_partial_trace(rho, n, 2, [m for m in range(n) if m not in modes])
        # requested order: axes of the reduced state permuted accordingly
        asc = sorted(modes)
        perm = [x for m in modes for x in (2 * asc.index(m), 2 * asc.index(m) + 1)]
        g.eq("dm", st.dm(), np.transpose(red, perm))
        g.eq("trace", st.trace(), np.trace(FH.as_matrix(red, len(modes), 2)))
        g.fact("mode names", [st._modemap[i] for i in range(len(modes))] == ["q[%d]" % m for m in modes],
               detail=repr(st._modemap))


def build(ctx):
    n = 2 if not ctx.thorough else 3
    sm = state_modules
    ctx.add("gaussian_state.n%d" % n, h_gauss_state, {"n": n}, modules=sm,
            functions=["BaseGaussianState.{means,cov,reduced_gaussian,mean_photon,poly_quad_expectation,quad_expectation,displacement,parity_expectation}",
                       "BaseBosonicState.{mean_photon,quad_expectation,parity_expectation,displacement}"],
            bounds={"modes": n, "state": "arbitrary symbolic (mu, V)"})
    ctx.add("gaussian_state.n1", h_gauss_state, {"n": 1}, modules=sm, functions=["BaseGaussianState.*"], bounds={"modes": 1})
    ng = 2
    for modes in ([0], [1]):
        ctx.add("gaussian_state.parity_subset%s" % modes, h_gauss_parity_subset, {"n": ng, "modes": modes}, modules=sm,
                functions=["BaseGaussianState.parity_expectation"], bounds={"modes": ng, "subset": modes})
        ctx.add("bosonic_state.subset%s" % modes, h_bosonic_parity_subset, {"n": ng, "modes": modes, "J": 2},
                modules=lambda: state_modules() + C.bosonic_modules(),
                functions=["BaseBosonicState.{parity_expectation,reduced_bosonic,mean_photon}"], bounds={"modes": ng, "peaks": 2, "subset": modes})
    for (nf, D, pure) in [(2, 2, True), (2, 2, False), (2, 3, True)] + ([(3, 2, True), (3, 2, False)] if ctx.thorough else []):
        ctx.add("fock_state.n%dD%d%s" % (nf, D, "pure" if pure else "mixed"), h_fock_state, {"n": nf, "D": D, "pure": pure},
                modules=lambda: state_modules() + C.fock_modules(),
                functions=["BaseFockState.{dm,trace,fock_prob,all_fock_probs,reduced_dm,mean_photon,number_expectation,parity_expectation,quad_expectation,diagonal_expectation}"],
                bounds={"modes": nf, "cutoff": D, "pure": pure})
    nb = 3
    for kind in ("gaussian", "fock"):
        for r_ in (1, 2, 3):
            for modes in itertools.permutations(range(nb), r_):
                if not ctx.thorough and r_ == 2 and modes not in ((0, 1), (1, 0), (2, 0), (1, 2)):
                    continue
                if not ctx.thorough and r_ == 3 and modes not in ((2, 0, 1), (1, 2, 0), (0, 2, 1)):
                    continue        # the two cyclic orders (permutation != its inverse) and one transposition
                ctx.add("%s.state(modes=%s)" % (kind, list(modes)), h_backend_state_modes, {"kind": kind, "modes": list(modes), "n": nb},
                        modules=lambda: state_modules() + C.gauss_modules() + C.fock_modules(),
                        functions=["GaussianBackend.state", "FockBackend.state"], bounds={"modes": nb, "requested": list(modes)})
                if kind == "fock" and (ctx.thorough or modes in ((0,), (2,), (1, 0), (2, 0, 1))):
                    ctx.add("fock.pure.state(modes=%s)" % (list(modes),), h_backend_state_modes,
                            {"kind": kind, "modes": list(modes), "n": nb, "pure": True},
                            modules=lambda: state_modules() + C.gauss_modules() + C.fock_modules(),
                            functions=["FockBackend.state", "BaseFockState.{dm,trace,is_pure}"],
                            bounds={"modes": nb, "requested": list(modes), "register": "pure state (symbolic ket)"})
