"""C17: matrix decompositions reconstruct their input (numpy-only routines: mesh decompositions)"""
import itertools
import numpy as np

from symx import fn
from symx.symarray import sarray
from . import common as C


def mods():
    import strawberryfields.decompositions as dec
    return [dec]


def su2(g, tag=""):
    """explicitly parametrised U(2): e^{i ga} [[e^{i al} c, -e^{-i be} s], [e^{i be} s, e^{-i al} c]]"""
    al, be, ga, th = g.real(tag + "al"), g.real(tag + "be"), g.real(tag + "ga"), g.real(tag + "th")
    c, s = fn.cos(th), fn.sin(th)
    U = fn.zeros((2, 2), al if g.sym else None) if g.sym else np.zeros((2, 2), dtype=complex)
    if g.sym:
        U = fn.zeros((2, 2), sarray([0]))
    U[0, 0] = fn.expi(ga + al) * c
    U[0, 1] = -fn.expi(ga - be) * s
    U[1, 0] = fn.expi(ga + be) * s
    U[1, 1] = fn.expi(ga - al) * c
    return U


def embed2(U2, i, j, n, like):
    M = fn.eye(n, like)
    M[i, i], M[i, j], M[j, i], M[j, j] = U2[0, 0], U2[0, 1], U2[1, 0], U2[1, 1]
    return M


def unitary(g, n):
    """parametrised unitary: n=2 full U(2); n=3 product of three embedded U(2)s (covers U(3) up to the usual measure-zero
    set; every factor has its own four angles)"""
    if n == 2:
        return su2(g)
    like = sarray([0]) if g.sym else np.zeros(1)
    U = fn.eye(3, like)
    for k, (i, j) in enumerate([(0, 1), (1, 2), (0, 1)]):
        U = embed2(su2(g, "u%d_" % k), i, j, 3, like) @ U
    return U


def stub_round(g):
    pass        # np.round(x, 14) is the identity in the symbolic stack (recorded as a stub by the shim)


def h_elementary(g, which, m, n, nmax):
    import strawberryfields.decompositions as dec
    a, b = g.real("a"), g.real("b")
    like = sarray([0]) if g.sym else np.zeros(1)
    I = fn.eye(nmax, like)
    if which == "T":
        Tm = dec.T(m, n, a, b, nmax)
        g.eq("T.Ti", Tm @ dec.Ti(m, n, a, b, nmax), I)
        g.eq("T unitary", Tm @ fn.conj(Tm).T, I)
    elif which == "MZ":
        Mz = dec.mach_zehnder(m, n, a, b, nmax)
        g.eq("MZ.MZinv", Mz @ dec.mach_zehnder_inv(m, n, a, b, nmax), I)
        # documented matrix
        e = fn.expi
        ref = fn.eye(nmax, like)
        pre = 1j * e(a / 2)
        ref[m, m] = pre * fn.sin(a / 2) * e(b)
        ref[m, n] = pre * fn.cos(a / 2)
        ref[n, m] = pre * fn.cos(a / 2) * e(b)
        ref[n, n] = -pre * fn.sin(a / 2)
        g.eq("MZ documented", Mz, ref)
    elif which == "M":
        Mm = dec.M(m, a, b, nmax)
        g.eq("M unitary", Mm @ fn.conj(Mm).T, I)
    elif which == "P":
        Pm = dec.P(m, a, nmax)
        g.eq("P unitary", Pm @ fn.conj(Pm).T, I)


def h_null(g, which, m, n, nmax):
    """for ARBITRARY complex entries (no unitarity needed) the returned angles null the targeted entry"""
    import strawberryfields.decompositions as dec
    U = g.cmat("U", nmax)
    if which == "nullTi":
        p = dec.nullTi(m, n, U)
        out = U @ dec.Ti(*p)
        g.eq("nulled", out[m, n], 0 * out[m, n])
    elif which == "nullT":
        p = dec.nullT(m, n, U)
        out = dec.T(*p) @ U
        g.eq("nulled", out[m, n], 0 * out[m, n])
    elif which == "nullMZi":
        p = dec.nullMZi(m, n, U)
        out = U @ dec.mach_zehnder_inv(*p)
        g.eq("nulled", out[m, n], 0 * out[m, n])
    elif which == "nullMZ":
        p = dec.nullMZ(m, n, U)
        out = dec.mach_zehnder(*p) @ U
        g.eq("nulled", out[m, n], 0 * out[m, n])


def recompose(dec, which, res, n, like):
    I = fn.eye(n, like)
    if which == "rectangular":
        tilist, diags, tlist = res
        q = I
        for i in tilist:
            q = dec.T(*i) @ q
        q = np.diag(diags) @ q
        for i in reversed(tlist):
            q = dec.Ti(*i) @ q
        return q, diags
    if which == "rectangular_phase_end":
        tlist, diags, _ = res
        q = I
        for i in tlist:
            q = dec.T(*i) @ q
        return np.diag(diags) @ q, diags
    if which == "rectangular_MZ":
        tilist, diags, tlist = res
        q = I
        for i in tilist:
            q = dec.mach_zehnder(*i) @ q
        q = np.diag(diags) @ q
        for i in reversed(tlist):
            q = dec.mach_zehnder_inv(*i) @ q
        return q, diags
    if which == "rectangular_symmetric":
        tlist, diags, _ = res
        q = I
        for i in tlist:
            q = dec.mach_zehnder(*i) @ q
        return np.diag(diags) @ q, diags
    if which == "triangular":
        tlist, diags, _ = res
        q = np.diag(diags)
        for i in tlist:
            q = dec.Ti(*i) @ q
        return q, diags
    raise KeyError(which)


def h_end2end(g, which, n):
    import strawberryfields.decompositions as dec
    like = sarray([0]) if g.sym else np.zeros(1)
    V = unitary(g, n)
    res = getattr(dec, which)(V)
    q, diags = recompose(dec, which, res, n, like)
    g.eq("reconstruction", q, V)
    g.eq("diagonal has unit modulus", [d * fn.conj(d) for d in diags], [1 + 0 * diags[0]] * n)


def h_phased_perm(g, which, perm):
    """sparse unitaries: a permutation matrix with an arbitrary phase on every non-zero entry (exact zeros drive the
    decompositions through their division-by-zero branches, which dense unitaries never reach)"""
    import strawberryfields.decompositions as dec
    n = len(perm)
    like = sarray([0]) if g.sym else np.zeros(1)
    V = fn.zeros((n, n), like) if g.sym else np.zeros((n, n), dtype=complex)
    for i, j in enumerate(perm):
        V[i, j] = fn.expi(g.real("ph%d" % i))
    res = getattr(dec, which)(V)
    q, diags = recompose(dec, which, res, n, like)
    g.eq("reconstruction", q, V)
    g.eq("diagonal has unit modulus", [d * fn.conj(d) for d in diags], [1 + 0 * diags[0]] * n)


def h_block(g, which, i, j, n):
    """block unitaries: an arbitrary U(2) acting on rows/columns (i, j), arbitrary phases elsewhere (exact zeros next to
    dense entries)"""
    import strawberryfields.decompositions as dec
    like = sarray([0]) if g.sym else np.zeros(1)
    V = embed2(su2(g), i, j, n, like)
    for k in range(n):
        if k not in (i, j):
            V[k, k] = fn.expi(g.real("ph%d" % k))
    res = getattr(dec, which)(V)
    q, diags = recompose(dec, which, res, n, like)
    g.eq("reconstruction", q, V)
    g.eq("diagonal has unit modulus", [d * fn.conj(d) for d in diags], [1 + 0 * diags[0]] * n)


def h_validation(g, which):
    """a non-unitary input is refused"""
    import strawberryfields.decompositions as dec
    V = g.cmat("V", 2)
    try:
        getattr(dec, which)(V)
    except ValueError as e:
        g.fact("non-unitary input raises ValueError", "unitary" in str(e))
        return
    # accepted: then the input was unitary on this path
    g.eq("accepted only if unitary", V @ fn.conj(V).T, fn.eye(2, sarray([0]) if g.sym else np.zeros(1)))


MZ_END2END_IN_THOROUGH = False
# dense 3x3 input (three embedded U(2) factors, 12 angles) through `rectangular`: every goal goes to the 10-minute portfolio
# and most come back unknown -> outside the claim
DENSE_3X3_IN_THOROUGH = False


def build(ctx):
    ctx.outside += ["takagi (complex branch: svd, sqrtm), williamson (sqrtm, schur), bloch_messiah (polar, svd): LAPACK kernels are not encodable",
                    "end-to-end reconstruction for rectangular_MZ / rectangular_symmetric (solver does not decide the 2x2 instance reliably); "
                    "dense unitaries above 2x2 end-to-end (3x3 through `rectangular` was tried: 10-minute portfolio queries, mostly unknown)",
                    "sun_compact / _su3_parameters, graph embeddings",
                    "3x3 inputs other than phased permutations (all meshes) and U(2)+phase block unitaries (rectangular, triangular)"]
    fns = ["decompositions.T", "decompositions.Ti", "decompositions.nullT", "decompositions.nullTi", "decompositions.mach_zehnder",
           "decompositions.mach_zehnder_inv", "decompositions.nullMZ", "decompositions.nullMZi", "decompositions.M", "decompositions.P",
           "decompositions.rectangular", "decompositions.rectangular_phase_end", "decompositions.rectangular_MZ",
           "decompositions.rectangular_symmetric", "decompositions.triangular"]
    nmax = 3
    for which in ("T", "MZ"):
        for m, n in ((0, 1), (1, 2)):
            ctx.add("elementary.%s[%d,%d]" % (which, m, n), h_elementary, {"which": which, "m": m, "n": n, "nmax": nmax}, modules=mods,
                    functions=fns, bounds={"size": nmax, "angles": "all real"})
    ctx.add("elementary.M", h_elementary, {"which": "M", "m": 1, "n": 0, "nmax": nmax}, modules=mods, functions=fns, bounds={"size": nmax})
    ctx.add("elementary.P", h_elementary, {"which": "P", "m": 1, "n": 0, "nmax": nmax}, modules=mods, functions=fns, bounds={"size": nmax})
    for which, targets in (("nullTi", [(2, 0), (1, 0), (2, 1)]), ("nullT", [(2, 0), (1, 0), (2, 1)]),
                           ("nullMZi", [(2, 0), (1, 0), (2, 1)]), ("nullMZ", [(2, 0), (1, 0), (2, 1)])):
        for m, n in targets:
            ctx.add("%s[%d,%d]" % (which, m, n), h_null, {"which": which, "m": m, "n": n, "nmax": nmax}, modules=mods, functions=fns,
                    bounds={"size": nmax, "matrix": "arbitrary complex entries (no unitarity assumed)"})
    for which in ("rectangular", "rectangular_phase_end", "rectangular_MZ", "rectangular_symmetric", "triangular"):
        if which in ("rectangular_MZ", "rectangular_symmetric") and not (ctx.thorough and MZ_END2END_IN_THOROUGH):
            # end-to-end reconstruction through the Mach-Zehnder parametrisation (phi_i = 2 atan|r| under four mod-2pi
            # reductions) yields QF_NRA queries that only z3 4.8.12 decides, in 10-60 s each and not reliably: these
            # two meshes are covered by their nulling lemmas, the MZ/MZ^-1 identities and the documented MZ matrix
            ctx.add("validation.%s" % which, h_validation, {"which": which}, modules=mods, functions=fns,
                    bounds={"size": 2, "matrix": "arbitrary complex"})
            continue
        ctx.add("end2end.%s.n2" % which, h_end2end, {"which": which, "n": 2}, modules=mods, functions=fns,
                bounds={"size": 2, "unitary": "all of U(2), explicitly parametrised by four angles"})
        if ctx.thorough and which == "rectangular" and DENSE_3X3_IN_THOROUGH:
            ctx.add("end2end.%s.n3" % which, h_end2end, {"which": which, "n": 3}, modules=mods, functions=fns,
                    bounds={"size": 3, "unitary": "product of three embedded U(2) factors (12 angles)"}, max_paths=400)
        ctx.add("validation.%s" % which, h_validation, {"which": which}, modules=mods, functions=fns,
                bounds={"size": 2, "matrix": "arbitrary complex"})
    # (rectangular_phase_end on block unitaries: the phase relocation stage gives queries no solver decides in 10 min -> outside)
    for which in ("rectangular", "triangular"):
        for (i, j) in ((0, 1), (1, 2), (0, 2)):
            ctx.add("block.%s.%d%d" % (which, i, j), h_block, {"which": which, "i": i, "j": j, "n": 3}, modules=mods, functions=fns,
                    bounds={"size": 3, "unitary": "arbitrary U(2) on rows/columns (%d,%d), arbitrary phase on the third" % (i, j)},
                    max_paths=400)
    for which in ("rectangular", "rectangular_phase_end", "rectangular_MZ", "rectangular_symmetric", "triangular"):
        for n in (3, 4) if ctx.thorough else (3,):
            for perm in itertools.permutations(range(n)):
                ctx.add("perm.%s.%s" % (which, "".join(map(str, perm))), h_phased_perm, {"which": which, "perm": list(perm)},
                        modules=mods, functions=fns,
                        bounds={"size": n, "unitary": "permutation %s with an arbitrary phase on each non-zero entry" % (perm,)})
