"""C18: program comparison is sound (== and equivalence imply the same action)"""
import itertools
import numpy as np

from symx import fn
from . import common as C
from . import frontend as F
from . import c03


def mods():
    import strawberryfields.program as program
    import strawberryfields.program_utils as pu
    return F.all_modules() + [program, pu]


# command templates: name -> (op name, parameter names, modes, dagger)
def templates(nmodes):
    T = {}
    for m in range(nmodes):
        T["R%d" % m] = ("Rgate", ["theta"], [m], False)
        T["R.H%d" % m] = ("Rgate", ["theta"], [m], True)
        T["S%d" % m] = ("Sgate", ["r", "phi"], [m], False)
    T["D0"] = ("Dgate", ["r", "phi"], [0], False)
    T["D.H0"] = ("Dgate", ["r", "phi"], [0], True)
    # beamsplitter parameters are numeric: program_equivalence reduces them mod pi to recognise the symmetric
    # beamsplitter, and an integer quotient of a symbolic angle makes the queries mixed integer/non-linear (minutes
    # each).  A generic and the symmetric (pi/4, pi/2) instance are in the alphabet instead.
    T["BS01"] = ("BSgate", [0.4, 0.3], [0, 1], False)
    T["BS10"] = ("BSgate", [0.4, 0.3], [1, 0], False)
    T["BS.H01"] = ("BSgate", [0.4, 0.3], [0, 1], True)
    # a 50:50 beamsplitter that is NOT symmetric under exchanging its modes (phi != pi/2)
    T["BS50_01"] = ("BSgate", [np.pi / 4, 0.3], [0, 1], False)
    T["BS50_10"] = ("BSgate", [np.pi / 4, 0.3], [1, 0], False)
    T["BSsym01"] = ("BSgate", [np.pi / 4, np.pi / 2], [0, 1], False)
    T["BSsym10"] = ("BSgate", [np.pi / 4, np.pi / 2], [1, 0], False)
    return T


def build_prog(g, seq, nmodes, tag):
    import strawberryfields as sf
    from strawberryfields import ops
    T = templates(nmodes)
    prog = sf.Program(nmodes)
    with prog.context as q:
        for k, name in enumerate(seq):
            opn, pn, modes, dag = T[name]
            vals = [g.real("%s%d_%s" % (tag, k, p)) if isinstance(p, str) else p for p in pn]
            op = getattr(ops, opn)(*vals)
            if dag:
                op = op.H
            op | tuple(q[m] for m in modes)
    return prog


def h_compare(g, seq1, seq2, nmodes, relation):
    """whenever the relation is reported True on a path, both programs map an arbitrary state to the same state"""
    p1 = build_prog(g, seq1, nmodes, "a")
    p2 = build_prog(g, seq2, nmodes, "b")
    if relation == "eq":
        r12 = bool(p1 == p2)
        r21 = bool(p2 == p1)
    else:
        r12 = bool(p1.equivalence(p2))
        r21 = bool(p2.equivalence(p1))
    g.fact("symmetric", r12 == r21, detail="%r vs %r" % (r12, r21))
    if relation == "eq":
        g.fact("reflexive", bool(p1 == p1) and bool(p2 == p2))
    else:
        g.fact("reflexive", bool(p1.equivalence(p1)) and bool(p2.equivalence(p2)))
    if not r12:
        g.fact("reported different: nothing to show", True)
        return
    be1 = C.gauss_backend(g, nmodes)
    be2 = c03.clone_gauss(be1)
    F.apply_cmds(p1.circuit, be1)
    F.apply_cmds(p2.circuit, be2)
    F.eq_gauss_state(g, "same action", F.gauss_final(be2), F.gauss_final(be1))


def h_commute(g, seq, nmodes):
    """swapping two adjacent commands on disjoint modes keeps the program equivalent to the original"""
    T = templates(nmodes)
    p1 = build_prog(g, seq, nmodes, "a")
    import strawberryfields as sf
    p2 = sf.Program(nmodes)
    cmds = list(p1.circuit)
    swapped = False
    for i in range(len(cmds) - 1):
        if not set(r.ind for r in cmds[i].reg) & set(r.ind for r in cmds[i + 1].reg):
            cmds[i], cmds[i + 1] = cmds[i + 1], cmds[i]
            swapped = True
            break
    if not swapped:
        g.fact("no commuting adjacent pair", True)
        return
    from strawberryfields.program_utils import Command
    p2.circuit = [Command(c.op, [p2.register[r.ind] for r in c.reg]) for c in cmds]
    g.fact("equivalent after swapping commuting commands", bool(p1.equivalence(p2)))


def build(ctx):
    nm = 2
    T = list(templates(nm))
    if not ctx.thorough:
        T = [t for t in T if t not in ("S1", "D.H0", "R.H1")]
    fns = ["Program.__eq__", "Program.equivalence", "program_utils.program_equivalence", "program_utils.list_to_DAG", "RegRef.__eq__"]

    def fam(seq):
        return [x.split(".")[0].rstrip("0123456789").replace("sym", "").replace("50_", "") for x in seq]

    def confusable(seqs_):
        out = []
        for s1 in seqs_:
            for s2 in seqs_:
                if len(s1) > len(s2):
                    continue
                # pairs that can be confused: same op families in the same order, or one a prefix of the other
                f1, f2 = fam(s1), fam(s2)
                if f1 == f2[:len(f1)] or sorted(f1) == sorted(f2):
                    out.append((s1, s2))
        return out
    seqs = [list(s) for l in range(1, 3) for s in itertools.product(T, repeat=l)]
    pairs = confusable(seqs)
    if ctx.thorough:
        # length 3 on a reduced alphabet (the full alphabet would give 2.3 million pairs)
        T3 = [t for t in T if t in ("R0", "R1", "BS01", "BS10", "S0")]
        seqs3 = [list(s) for l in range(1, 4) for s in itertools.product(T3, repeat=l)]
        pairs += [p for p in confusable(seqs3) if len(p[1]) == 3]
        seqs = seqs + [s for s in seqs3 if len(s) == 3]
    if not ctx.thorough:
        pairs = [p for p in pairs if len(p[1]) <= 2 and (len(p[0]) == 1 or p[0][0] in ("R0", "BS01"))]
    for s1, s2 in pairs:
        for rel in ("eq", "equivalence"):
            ctx.add("%s.%s~%s" % (rel, "|".join(s1), "|".join(s2)), h_compare,
                    {"seq1": s1, "seq2": s2, "nmodes": nm, "relation": rel}, modules=mods, functions=fns,
                    bounds={"modes": nm, "lengths": [len(s1), len(s2)], "parameters": "symbolic (comparisons fork)"},
                    validate_points=1)
    for s in seqs:
        if len(s) >= 2:
            ctx.add("commute.%s" % "|".join(s), h_commute, {"seq": s, "nmodes": nm}, modules=mods, functions=fns,
                    bounds={"modes": nm, "length": len(s)}, validate_points=0)
