"""C19: GBS application helpers (CrossHair for the pure-Python kernels, Engine P + solver for the clique routines)"""
import itertools
import numpy as np

from symx import fn
from . import xhrun

NODES = 4
PAIRS = list(itertools.combinations(range(NODES), 2))


def mods():
    from strawberryfields.apps import clique
    return [clique]


def build_graph(g):
    """graph on 4 nodes whose adjacency is symbolic: edge (i,j) present iff e_ij > 0 (each test forks the explorer)"""
    import networkx as nx
    G = nx.Graph()
    G.add_nodes_from(range(NODES))
    for i, j in PAIRS:
        e = g.real("e%d%d" % (i, j), lo=-1, hi=1, nonzero=True)
        if e > 0:
            G.add_edge(i, j)
    return G


def is_clique(nodes, G):
    return all(G.has_edge(a, b) for a, b in itertools.combinations(nodes, 2))


def h_clique(g, op, select, seed, pick):
    """op in grow/swap/shrink; select in uniform/degree/weight; seed: tuple of nodes; pick: index taken by the random choice"""
    from strawberryfields.apps import clique
    import networkx as nx
    G = build_graph(g)
    seed = list(seed)
    w = [g.real("w%d" % i) for i in range(NODES)] if select == "weight" else None
    node_select = w if select == "weight" else select

    def choice(a, size=None, replace=True, p=None):
        if isinstance(a, (int, np.integer)):
            return pick % int(a)
        a = list(a)
        return a[pick % len(a)]
    g.random_handler("choice", choice)
    if op in ("grow", "swap") and not is_clique(seed, G):
        g.fact("seed is not a clique on this path: nothing to show", True)
        return
    if op == "shrink":
        removed = []
        orig = nx.Graph.remove_node

        def spy(self, n):
            removed.append(n)
            return orig(self, n)
        g.patch(nx.Graph, "remove_node", spy)
        if select == "degree":
            select = "uniform"
            node_select = "uniform"
        out = clique.shrink(seed, G, node_select=node_select)
        g.fact("shrink returns a clique inside the subgraph", is_clique(out, G) and set(out) <= set(seed) and out == sorted(out))
        if removed:
            first = removed[0]
            sub = G.subgraph(seed)
            degs = {n: sub.degree(n) for n in seed}
            dmin = min(degs.values())
            cands = [n for n in seed if degs[n] == dmin]
            g.fact("first node removed has minimal degree", first in cands, detail="removed %r, candidates %r" % (first, cands))
            if w is not None and first in cands:
                for c in cands:
                    g.holds("first node removed has minimal weight among the minimal-degree nodes (vs %d)" % c, w[first] <= w[c])
        return
    if op == "grow":
        out = clique.grow(seed, G, node_select=node_select)
        g.fact("grow returns a clique containing the seed", is_clique(out, G) and set(seed) <= set(out) and out == sorted(out))
        g.fact("grow is maximal", not any(all(G.has_edge(i, j) for j in out) for i in range(NODES) if i not in out))
        added = [n for n in out if n not in seed]
        if added and select in ("degree", "weight"):
            # the first node added is extremal among the candidates c_0(seed)
            c0 = [i for i in range(NODES) if i not in seed and all(G.has_edge(i, j) for j in seed)]
            # (the first added node cannot be read off the sorted result when several were added: check when exactly one)
            if len(added) == 1:
                a = added[0]
                if select == "degree":
                    g.fact("added node has maximal degree among the candidates", G.degree(a) == max(G.degree(c) for c in c0))
                else:
                    for c in c0:
                        g.holds("added node has maximal weight among the candidates (vs %d)" % c, w[a] >= w[c])
        return
    if op == "swap":
        out = clique.swap(seed, G, node_select=node_select)
        g.fact("swap returns a clique of the same size differing in at most one node",
               is_clique(out, G) and len(out) == len(seed) and len(set(out) - set(seed)) <= 1)
        new = [n for n in out if n not in seed]
        if new and select in ("degree", "weight"):
            c1 = [i for i in range(NODES) if i not in seed and sum(1 for j in seed if G.has_edge(i, j)) == len(seed) - 1]
            a = new[0]
            if select == "degree":
                g.fact("swapped-in node has maximal degree among the candidates", G.degree(a) == max(G.degree(c) for c in c1))
            else:
                for c in c1:
                    g.holds("swapped-in node has maximal weight among the candidates (vs %d)" % c, w[a] >= w[c])


def build(ctx):
    ctx.outside += ["graphs with more than 4 nodes", "thewalrus samplers, prob_orbit_exact / prob_event_exact (hafnians)",
                    "subgraph.search / resize (numpy sorting of symbolic densities under CrossHair is unreliable; not claimed)",
                    "cardinalities for more than 12 modes (float factorials stop being exact)"]
    fns = ["apps.clique.grow", "apps.clique.swap", "apps.clique.shrink", "apps.clique.c_0", "apps.clique.c_1", "apps.clique.is_clique"]
    seeds = {"grow": [(0,), (1, 2), (3,)], "swap": [(0, 1), (2,), (1, 2, 3)], "shrink": [(0, 1, 2, 3), (0, 1, 2), (1, 3)]}
    for op in ("grow", "swap", "shrink"):
        for select in ("uniform", "degree", "weight"):
            if op == "shrink" and select == "degree":
                continue
            for seed in (seeds[op] if ctx.thorough else seeds[op][:1]):
                if not ctx.thorough and select == "uniform" and op != "shrink":
                    continue
                picks = (0, 1) if not ctx.thorough else (0, 1, 2)
                for pick in picks:
                    ctx.add("clique.%s.%s.seed%s.pick%d" % (op, select, list(seed), pick), h_clique,
                            {"op": op, "select": select, "seed": list(seed), "pick": pick}, modules=mods, functions=fns,
                            bounds={"nodes": NODES, "adjacency": "all 64 graphs (symbolic edge indicators, explored by forking)",
                                    "weights": "symbolic reals" if select == "weight" else None, "random_choice_index": pick},
                            validate_points=0, max_paths=5000)


def xh(ctx):
    checks = ["check_orbits", "check_sample_orbit_event", "check_event_cardinality"]
    if ctx.thorough:
        checks += ["check_c0_c1", "check_orbit_cardinality"]
    tmo = 600 if not ctx.thorough else 3000
    return [xhrun.run("xh/c19_apps.py", checks, ["twin_orbits"], tmo, ctx.prop)]
