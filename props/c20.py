"""C20: trainable-GBS and chemistry numerics are self-consistent (partial claim, see DESIGN.md)

Gradients are compared with the exact symbolic derivative (symx.diff) of the value the real code reports; in concrete
mode (encoding validation, replay) the derivative is a 5-point finite-difference stencil.
"""
import itertools
import numpy as np

from symx import fn
from symx.diff import dsym
from symx.symarray import sarray
from symx.scalar import tosym
from . import common as C
from . import frontend as F


def mods():
    import strawberryfields.apps.train.param as param
    import strawberryfields.apps.train.cost as cost
    import strawberryfields.apps.train.embed as embed
    import thewalrus.quantum.means_and_variances as mv
    import thewalrus.quantum.conversions as cv
    return [param, cost, embed, mv, cv]


def deriv(g, f, xs, j):
    """d f(xs) / d xs[j]  (f returns a scalar or an array)"""
    if g.sym:
        y = f(list(xs))
        v = xs[j]
        if np.ndim(y) == 0 and not isinstance(y, np.ndarray):
            return dsym(y, v)
        ya = np.asarray(y, dtype=object)
        out = np.empty(ya.shape, dtype=object)
        for idx in np.ndindex(*ya.shape):
            out[idx] = dsym(ya[idx], v)
        return sarray(out)
    h = 1e-3

    def at(d):
        z = list(xs)
        z[j] = z[j] + d
        return np.asarray(f(z), dtype=complex)
    return (at(-2 * h) - 8 * at(-h) + 8 * at(h) - at(2 * h)) / (12 * h)


def features(g, n, d, kind):
    if kind == "identity":
        return np.eye(n)
    if kind == "symbolic":
        return g.rmat("f", n, d)
    rng = np.random.RandomState(7)
    return np.round(rng.uniform(-1, 1, (n, d)), 2)


def h_jacobian(g, n, d, kind):
    """ExpFeatures.jacobian(theta)[i, j] == d weights(theta)[i] / d theta_j   (Exp = identity features)"""
    from strawberryfields.apps.train import embed
    if kind == "identity":
        emb = embed.Exp(n)
        d = n
    else:
        emb = embed.ExpFeatures(features(g, n, d, kind))
    th = [g.real("t%d" % k, lo=-2, hi=2) for k in range(d)]
    as_arr = (lambda xs: sarray(xs)) if g.sym else (lambda xs: np.array(xs))
    jac = emb.jacobian(as_arr(th))
    g.fact("jacobian shape", np.shape(jac) == (n, d), detail=str(np.shape(jac)))
    for j in range(d):
        g.eq("jacobian[:,%d]" % j, jac[:, j], deriv(g, lambda xs: emb.weights(as_arr(xs)), th, j))
    g.eq("__call__ == weights", emb(as_arr(th)), emb.weights(as_arr(th)))


def make_vgbs(g, N, kind, threshold=False, d=None):
    from strawberryfields.apps.train import param, embed
    d = N if d is None else d
    lim = {1: 0.8, 2: 0.4, 3: 0.25}[N]
    A0 = g._arr((N, N))
    for i in range(N):
        for j in range(i, N):
            A0[i, j] = A0[j, i] = g.real("a%d_%d" % (i, j), lo=-lim, hi=lim)
    A0 = g._fin(A0, real=True)
    vg = param.VGBS.__new__(param.VGBS)
    vg.A_init = A0
    vg.A_init_samples = None
    vg.embedding = embed.Exp(N) if kind == "identity" else embed.ExpFeatures(features(g, N, d, kind))
    vg.threshold = threshold
    vg.n_modes = N
    g.note("VGBS built without __init__ (rescale_adjacency is a numerical root finder: outside); A_init is an arbitrary "
           "real symmetric matrix with row sums < 1")
    return vg


def h_stochastic(g, N, kind, samples):
    """Stochastic (photon-number-resolving): gradient reported == derivative of the value reported, sample by sample and
    through the public evaluate / grad pair on a pre-loaded sample set"""
    from strawberryfields.apps.train import cost
    vg = make_vgbs(g, N, kind)
    # weights in (0, 1]: theta >= 0 with identity features
    th = [g.real("t%d" % k, lo=0, hi=2) for k in range(N)]
    as_arr = (lambda xs: sarray(xs)) if g.sym else (lambda xs: np.array(xs))
    hvals = {tuple(s_): g.real("h_" + "_".join(map(str, s_))) for s_ in samples}

    def h(sample):
        return hvals[tuple(int(x) for x in sample)]
    st = cost.Stochastic(h, vg)
    S = np.array(samples)
    for s in S:
        grad = st._gradient_one_sample(s, as_arr(th))
        for j in range(N):
            g.eq("sample%s.grad[%d]" % ("".join(map(str, s)), j), grad[j],
                 deriv(g, lambda xs: st.h_reparametrized(s, as_arr(xs)), th, j))
    # public pair on the pre-loaded samples
    vg.add_A_init_samples(S)
    k = len(S)
    grad = st.grad(as_arr(th), k)
    for j in range(N):
        g.eq("grad[%d] == d evaluate / d theta_%d" % (j, j), grad[j], deriv(g, lambda xs: st.evaluate(as_arr(xs), k), th, j))
    g.eq("__call__ == evaluate", st(as_arr(th), k), st.evaluate(as_arr(th), k))
    # at theta = 0 the reparametrised cost is the plain cost
    zero = as_arr([0 * t for t in th])
    g.eq("h_reparametrized(theta=0) == h", st.h_reparametrized(S[0], zero), h(S[0]))


def h_moments(g, N, kind):
    """mean photon numbers are those of the state with adjacency matrix A(theta): <n_k> = [(1 - A^2)^-1]_kk - 1 for real A,
    the total is n_mean, and A_to_cov is a valid pure covariance (det = (hbar/2)^2N, symmetric)"""
    import strawberryfields as sf
    from strawberryfields.apps.train import param
    vg = make_vgbs(g, N, kind)
    th = [g.real("t%d" % k, lo=0, hi=2) for k in range(N)]
    as_arr = (lambda xs: sarray(xs)) if g.sym else (lambda xs: np.array(xs))
    A = vg.A(as_arr(th))
    w = vg.embedding(as_arr(th))
    g.eq("A == W A_init W", A * A, np.outer(w, w) * vg.A_init * vg.A_init)
    g.eq("A symmetric", A, A.T)
    nbar = vg.mean_photons_by_mode(as_arr(th))
    I = fn.eye(N, A)
    ref = fn.inv(I - A @ A)
    g.eq("mean photons", nbar, np.diag(ref) - 1)
    g.eq("n_mean", vg.n_mean(as_arr(th)), np.sum(np.diag(ref)) - N)
    cov = param.A_to_cov(A)
    g.eq("cov symmetric", cov, cov.T)
    g.eq("cov pure", fn.det(cov * (2 / sf.hbar)), 1)
    # vacuum probability of that state == the normalisation used by the cost functions: sqrt(det(1 - O))
    O = param._Omat(A)
    g.eq("1/det(Q) == det(1 - O)", fn.det(fn.eye(2 * N, A) - O) * fn.det(cov / sf.hbar + fn.eye(2 * N, A) / 2), 1)


def h_clicks(g, N, kind):
    """threshold mode: mean_clicks_by_mode[k] == 1 - P(mode k is in vacuum) with the vacuum probability of the reduced
    one-mode Gaussian state, 1/sqrt(det(sigma_k/hbar + 1/2))"""
    import strawberryfields as sf
    from strawberryfields.apps.train import param
    vg = make_vgbs(g, N, kind, threshold=True)
    th = [g.real("t%d" % k, lo=0, hi=2) for k in range(N)]
    as_arr = (lambda xs: sarray(xs)) if g.sym else (lambda xs: np.array(xs))
    A = vg.A(as_arr(th))
    cbar = vg.mean_clicks_by_mode(as_arr(th))
    cov = param.A_to_cov(A)
    for k in range(N):
        red = cov[np.ix_([k, k + N], [k, k + N])]
        dq = fn.det(red / sf.hbar + fn.eye(2, A) / 2)
        # (1 - c)^2 * det == 1 and c < 1
        g.eq("clicks[%d]" % k, (1 - cbar[k]) * (1 - cbar[k]) * dq, 1)
        g.holds("clicks[%d] in [0, 1)" % k, (cbar[k] < 1) & (cbar[k] >= 0) if g.sym else bool(0 <= cbar[k] < 1))
    g.eq("n_mean", vg.n_mean(as_arr(th)), np.sum(cbar))


def h_time_evolution(g, n, via):
    """dynamics.TimeEvolution conserves photon number: total and per mode, on an arbitrary Gaussian state"""
    import strawberryfields as sf
    from strawberryfields.apps.qchem import dynamics
    w = [g.real("w%d" % k, lo=0) for k in range(n)]
    t = g.real("t", lo=0)
    be = C.gauss_backend(g, n)
    c0 = be.circuit
    n0 = [c0.nmat[k, k] + c0.mean[k] * fn.conj(c0.mean[k]) for k in range(n)]
    N0, M0, m0 = c0.nmat.copy(), c0.mmat.copy(), c0.mean.copy()
    prog = sf.Program(n)
    as_arr = (lambda xs: sarray(xs)) if g.sym else (lambda xs: np.array(xs))
    with prog.context as q:
        dynamics.TimeEvolution(as_arr(w), t) | q
    g.fact("one rotation per mode", [type(c.op).__name__ for c in prog.circuit] == ["Rgate"] * n and
           [c.reg[0].ind for c in prog.circuit] == list(range(n)))
    if via == "direct":
        F.apply_cmds(prog.circuit, be)
    else:
        cp = prog.compile(compiler="gaussian")
        F.apply_cmds(cp.circuit, be)
    c1 = be.circuit
    for k in range(n):
        g.eq("photon number mode %d" % k, c1.nmat[k, k] + c1.mean[k] * fn.conj(c1.mean[k]), n0[k])
    # the documented unitary exp(-i H t / hbar), H = sum_k hbar w_k n_k: a_k -> a_k exp(-i w_k t) with w in cm^-1 and t in fs
    # converted by the documented factor (same order of operations as the documentation, so that the constant is the same
    # rational number)
    import scipy.constants as sc
    ph = [fn.expi(-w[k] * 100.0 * sc.c * 1.0e-15 * t * (2.0 * sc.pi)) for k in range(n)]
    for k in range(n):
        g.eq("mean[%d]" % k, c1.mean[k], ph[k] * m0[k])
        for l in range(n):
            g.eq("N[%d,%d]" % (k, l), c1.nmat[k, l], fn.conj(ph[k]) * ph[l] * N0[k, l])
            g.eq("M[%d,%d]" % (k, l), c1.mmat[k, l], ph[k] * ph[l] * M0[k, l])


def build(ctx):
    fns_t = ["apps.train.embed.ExpFeatures.weights", "ExpFeatures.jacobian", "embed.Exp", "apps.train.param.VGBS.W", "VGBS.A",
             "VGBS.mean_photons_by_mode", "VGBS.mean_clicks_by_mode", "VGBS.n_mean", "VGBS.add_A_init_samples",
             "VGBS.get_A_init_samples", "param.A_to_cov", "param._Omat", "apps.train.cost.Stochastic.h_reparametrized",
             "Stochastic._gradient_one_sample", "Stochastic.evaluate", "Stochastic.grad",
             "thewalrus.quantum.photon_number_mean_vector", "thewalrus.quantum.Qmat"]
    ctx.outside += [
        "KL.evaluate / prob_photon_sample / prob_click (thewalrus hafnian and torontonian kernels; pure_state_amplitude's "
        "validity check needs eigenvalues)",
        "normalisation of the model distribution as an infinite sum over samples (the gradient identity checked here is its "
        "differential form: d log Z / d log w_k = <n_k>)",
        "VGBS.__init__ / rescale_adjacency (numerical root finding), generate_samples (thewalrus samplers)",
        "more than 3 modes; embeddings other than Exp / ExpFeatures",
        "threshold-mode gradient (documented as approximate: excluded by the property itself)",
        "qchem.vibronic.gbs_params / VibronicTransition / utils.duschinsky (SVD and matrix square roots of symbolic matrices), "
        "dynamics.sample_* / prob (Fock-space simulation), similarity.prob_orbit_exact / prob_event_exact",
    ]
    th = ctx.thorough
    for (n, d, kind) in [(2, 2, "identity"), (2, 2, "symbolic"), (3, 2, "fixed")] + ([(3, 3, "identity"), (3, 2, "symbolic"), (2, 3, "symbolic")] if th else []):
        ctx.add("jacobian.n%d.d%d.%s" % (n, d, kind), h_jacobian, {"n": n, "d": d, "kind": kind}, modules=mods, functions=fns_t,
                bounds={"modes": n, "parameters": d, "features": kind, "theta": "[-2, 2]"}, validate_points=2)
    st_cases = [(1, "identity", [[0], [1], [2], [3]]), (2, "identity", [[0, 0], [1, 1], [2, 0]])]
    if th:
        # (N=2 with non-identity fixed features: the queries need the 10-minute portfolio -> outside)
        st_cases += [(2, "identity", [[0, 2], [1, 0], [2, 2], [3, 1]]), (1, "fixed", [[0], [4]])]
    for i, (N, kind, samples) in enumerate(st_cases):
        ctx.add("stochastic.N%d.%s.%d" % (N, kind, i), h_stochastic, {"N": N, "kind": kind, "samples": samples}, modules=mods,
                functions=fns_t, bounds={"modes": N, "features": kind, "samples": samples, "theta": "[0, 2]",
                                         "A_init": "arbitrary real symmetric, row sums < 1", "h": "arbitrary value per sample"},
                validate_points=2)
    for N in (1, 2) + ((3,) if th else ()):
        ctx.add("moments.N%d" % N, h_moments, {"N": N, "kind": "identity"}, modules=mods, functions=fns_t,
                bounds={"modes": N, "theta": "[0, 2]"}, validate_points=2)
        if N <= 2:      # (N=3: the 2x2 determinant of the reduced Q matrix is not syntactically real in the symbolic stack)
            ctx.add("clicks.N%d" % N, h_clicks, {"N": N, "kind": "identity"}, modules=mods, functions=fns_t,
                    bounds={"modes": N, "theta": "[0, 2]"}, validate_points=2)
    fns_q = ["apps.qchem.dynamics.TimeEvolution", "TimeEvolution._decompose", "ops.Rgate", "GaussianBackend.rotation"]
    for n in (1, 2) + ((3,) if th else ()):
        for via in ("direct", "compile"):
            ctx.add("time_evolution.n%d.%s" % (n, via), h_time_evolution, {"n": n, "via": via},
                    modules=lambda: C.gauss_modules() + _qmods(), functions=fns_q,
                    bounds={"modes": n, "frequencies": "symbolic >= 0", "time": "symbolic >= 0", "state": "arbitrary Gaussian"},
                    validate_points=2)


def _qmods():
    import strawberryfields.ops as ops
    import strawberryfields.apps.qchem.dynamics as dyn
    return [ops, dyn]
