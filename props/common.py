"""Shared builders (symbolic backend states) and reference models written from notes/conventions.md only."""
import itertools
import numpy as np

from symx import fn
from symx.scalar import Sym
from symx.symarray import SymArray, sarray


def gauss_modules():
    import strawberryfields.backends.gaussianbackend.gaussiancircuit as gc
    import strawberryfields.backends.gaussianbackend.backend as gb
    import strawberryfields.backends.gaussianbackend.ops as go
    import thewalrus.symplectic as ws
    return [gc, gb, go, ws]


def bosonic_modules():
    import strawberryfields.backends.bosonicbackend.bosoniccircuit as bc
    import strawberryfields.backends.bosonicbackend.backend as bb
    import strawberryfields.backends.bosonicbackend.ops as bo
    import thewalrus.symplectic as ws
    return [bc, bb, bo, ws]


def fock_modules():
    import strawberryfields.backends.fockbackend.circuit as fc
    import strawberryfields.backends.fockbackend.backend as fb
    import strawberryfields.backends.fockbackend.ops as fo
    import thewalrus.fock_gradients as fg
    return [fc, fb, fo, fg]


def states_modules():
    import strawberryfields.backends.states as st
    return [st]


# --------------------------------------------------------------------------- Gaussian backend

def gauss_backend(g, n, name="", active=None):
    """GaussianBackend whose circuit holds an arbitrary symbolic state (N Hermitian, M symmetric, alpha)"""
    from strawberryfields.backends.gaussianbackend.backend import GaussianBackend
    from strawberryfields.backends.gaussianbackend.gaussiancircuit import GaussianModes
    be = GaussianBackend()
    st = GaussianModes.__new__(GaussianModes)
    st.hbar = 2
    st.nlen = n
    st.active = list(range(n)) if active is None else list(active)
    st.nmat = g.herm(name + "N", n)
    st.mmat = g.csymm(name + "M", n)
    st.mean = g.cvec(name + "a", n)
    be.circuit = st
    be._init_modes = n
    return be


def gauss_snapshot(be):
    c = be.circuit
    return c.nmat.copy(), c.mmat.copy(), c.mean.copy()


# --------------------------------------------------------------------------- bosonic backend

def bosonic_backend(g, n, J=1, name="", active=None, real_means=False, real_weights=False):
    from strawberryfields.backends.bosonicbackend.backend import BosonicBackend
    from strawberryfields.backends.bosonicbackend import bosoniccircuit as bc
    be = BosonicBackend()
    st = bc.BosonicModes.__new__(bc.BosonicModes)
    st.hbar = 2
    st.nlen = n
    st.active = list(range(n)) if active is None else list(active)
    st.to_xp = bc.to_xp(n)
    st.from_xp = bc.from_xp(n)
    ws, ms, cs = [], [], []
    for j in range(J):
        ws.append((g.real("%sw%d" % (name, j)) + (0 if g.sym else 0j)) if real_weights else g.complex("%sw%d" % (name, j)) if J > 1 else (g.real("%sw0" % name) + 0j if not g.sym else g.real("%sw0" % name)))
        if real_means:
            ms.append(g.rvec("%smu%d_" % (name, j), 2 * n))
        else:
            ms.append(g.cvec("%smu%d_" % (name, j), 2 * n))
        cs.append(g.rsymm("%sV%d_" % (name, j), 2 * n))
    if g.sym:
        st.weights = sarray(ws)
        st.means = sarray(np.array([np.asarray(m.view(np.ndarray)) for m in ms], dtype=object))
        st.covs = sarray(np.array([np.asarray(c.view(np.ndarray)) for c in cs], dtype=object))
    else:
        st.weights = np.array(ws, dtype=complex)
        st.means = np.array(ms, dtype=complex)
        st.covs = np.array(cs, dtype=complex)
    be.circuit = st
    be._init_modes = n
    return be


def bosonic_snapshot(be):
    c = be.circuit
    return c.weights.copy(), c.means.copy(), c.covs.copy()


# --------------------------------------------------------------------------- reference: Bogoliubov maps

def ident(n, like):
    return fn.eye(n, like)


def zmat(n, like):
    return fn.zeros((n, n), like)


def zvec(n, like):
    return fn.zeros((n,), like)


def spec(op, params, modes, n, like):
    """documented Heisenberg action a -> A a + B a^dagger + d of a unitary Gaussian gate (conventions.md)"""
    A, B, d = ident(n, like), zmat(n, like), zvec(n, like)
    if op == "rotation":
        (phi,), (k,) = params, modes
        A[k, k] = fn.expi(phi)
    elif op == "displacement":
        (r, phi), (k,) = params, modes
        d[k] = r * fn.expi(phi)
    elif op == "squeeze":
        (r, phi), (k,) = params, modes
        A[k, k] = fn.cosh(r) + 0 * A[k, k]
        B[k, k] = -fn.expi(phi) * fn.sinh(r)
    elif op == "beamsplitter":
        (th, phi), (k, l) = params, modes
        c, s, e = fn.cos(th), fn.sin(th), fn.expi(phi)
        A[k, k] = c + 0 * A[k, k]
        A[k, l] = -fn.conj(e) * s
        A[l, k] = e * s
        A[l, l] = c + 0 * A[l, l]
    elif op == "two_mode_squeeze":
        (r, phi), (k, l) = params, modes
        ch, sh, e = fn.cosh(r), fn.sinh(r), fn.expi(phi)
        A[k, k] = ch + 0 * A[k, k]
        A[l, l] = ch + 0 * A[l, l]
        B[k, l] = e * sh
        B[l, k] = e * sh
    else:
        raise KeyError(op)
    return A, B, d


def bogoliubov_nm(N, M, a, A, B, d):
    """action on N_ij=<da_i^+ da_j>, M_ij=<da_i da_j>, alpha_i=<a_i> of a -> A a + B a^+ + d"""
    n = len(a)
    I = ident(n, N)
    Ac, Bc = fn.conj(A), fn.conj(B)
    Mc = fn.conj(M)
    a2 = A @ a + B @ fn.conj(a) + d
    M2 = A @ M @ A.T + A @ (N.T + I) @ B.T + B @ N @ A.T + B @ Mc @ B.T
    N2 = Ac @ N @ A.T + Ac @ Mc @ B.T + Bc @ M @ A.T + Bc @ (N.T + I) @ B.T
    return N2, M2, a2


def loss_nm(N, M, a, T, nbar, k):
    """a_k -> sqrt(T) a_k + sqrt(1-T) b, b thermal with nbar photons, uncorrelated"""
    n = len(a)
    N2, M2, a2 = N.copy(), M.copy(), a.copy()
    s = fn.sqrt(T)
    for j in range(n):
        N2[k, j] = s * N2[k, j]
        M2[k, j] = s * M2[k, j]
    for j in range(n):
        N2[j, k] = s * N2[j, k]
        M2[j, k] = s * M2[j, k]
    N2[k, k] = N2[k, k] + (1 - T) * nbar
    a2[k] = s * a2[k]
    return N2, M2, a2


def symplectic_xpxp(A, B, d):
    """(S, dvec) in (x1,p1,x2,p2,..) ordering, hbar=2 (x=a+a^+, p=-i(a-a^+)), of a -> A a + B a^+ + d"""
    n = A.shape[0]
    E = A + fn.conj(B)
    F = A - fn.conj(B)
    S = fn.zeros((2 * n, 2 * n), A)
    dv = fn.zeros((2 * n,), A)
    for i in range(n):
        for j in range(n):
            S[2 * i, 2 * j] = fn.real(E[i, j])
            S[2 * i, 2 * j + 1] = -fn.imag(E[i, j])
            S[2 * i + 1, 2 * j] = fn.imag(F[i, j])
            S[2 * i + 1, 2 * j + 1] = fn.real(F[i, j])
        dv[2 * i] = 2 * fn.real(d[i])
        dv[2 * i + 1] = 2 * fn.imag(d[i])
    return S, dv


def phase_apply(means, covs, S, dv, Y=None):
    """mu -> S mu + d, V -> S V S^T + Y on every peak (means: (J,2n), covs: (J,2n,2n))"""
    J = means.shape[0]
    m2 = means.copy()
    c2 = covs.copy()
    for j in range(J):
        m2[j] = S @ means[j] + dv
        c2[j] = S @ covs[j] @ S.T + (Y if Y is not None else 0 * S)
    return m2, c2


def loss_xy(T, nbar, k, n, like):
    X = fn.eye(2 * n, like)
    Y = fn.zeros((2 * n, 2 * n), like)
    s = fn.sqrt(T)
    for q in (2 * k, 2 * k + 1):
        X[q, q] = s + 0 * X[q, q]
        Y[q, q] = (1 - T) * (2 * nbar + 1) + 0 * Y[q, q]
    return X, Y


def nm_to_phase(N, M, a):
    """(mu, V) in xpxp ordering at hbar=2 from (N, M, alpha): V = <{dr, dr}>/2"""
    n = len(a)
    mu = fn.zeros((2 * n,), N)
    V = fn.zeros((2 * n, 2 * n), N)
    I = ident(n, N)
    Mc, Nt = fn.conj(M), N.T
    xx = N + Nt + M + Mc + I
    pp = N + Nt - M - Mc + I
    xp = 1j * (Nt - N) + 1j * (Mc - M)       # <{x_i,p_j}>/2 = i<...>; see derivation in notes/conventions.md
    for i in range(n):
        mu[2 * i] = 2 * fn.real(a[i])
        mu[2 * i + 1] = 2 * fn.imag(a[i])
        for j in range(n):
            V[2 * i, 2 * j] = fn.real(xx[i, j])
            V[2 * i + 1, 2 * j + 1] = fn.real(pp[i, j])
            V[2 * i, 2 * j + 1] = fn.real(xp[i, j])
            V[2 * j + 1, 2 * i] = fn.real(xp[i, j])
    return mu, V


def ordered_choices(n, k):
    return list(itertools.permutations(range(n), k))
