"""C01.4: front-end dispatch -- what Gate.apply hands to a backend's native kernel is the documented gate.

The kernels themselves are the subject of the other C01 harnesses (each against its documented matrix).  Here the real
ops.<Gate>(...)[.H].apply(reg, backend) runs against a recording backend with symbolic parameters; the recorded kernel
calls, read with the documented action of each kernel, must compose to the documented action of the gate (plain) or to
its inverse (daggered) -- including the path on which Gate.apply's `p[0] == 0` shortcut makes no call at all."""
import numpy as np

from symx import fn
from symx.symarray import sarray
from . import common as C
from . import c02

GAUSS = {"Dgate": ["r", "phi"], "Sgate": ["r", "phi"], "Rgate": ["theta"], "BSgate": ["theta", "phi"], "S2gate": ["r", "phi"],
         "MZgate": ["phi_in", "phi_ex"]}
NONGAUSS = {"Kgate": (["kappa"], "kerr_interaction"), "CKgate": (["kappa"], "cross_kerr_interaction")}
KERNEL_DOC = {"displacement": "Dgate", "squeeze": "Sgate", "rotation": "Rgate", "beamsplitter": "BSgate",
              "two_mode_squeeze": "S2gate", "mzgate": "MZgate"}


def mods():
    import strawberryfields.ops as ops
    return [ops]


class Rec:
    def __init__(self):
        self.calls = []

    def __getattr__(self, name):
        if name.startswith("__"):
            raise AttributeError(name)

        def f(*args, **kwargs):
            self.calls.append((name, args))
        return f


def compose(first, then):
    """Heisenberg action of `first` followed by `then`"""
    A1, B1, d1 = first
    A2, B2, d2 = then
    return (A2 @ A1 + B2 @ fn.conj(B1), A2 @ B1 + B2 @ fn.conj(A1), A2 @ d1 + B2 @ fn.conj(d1) + d2)


def h_dispatch(g, gate, dagger, modes):
    from strawberryfields import ops
    from strawberryfields.program_utils import RegRef
    n = 2
    like = g.const(0) if g.sym else 0.0
    like_arr = fn.zeros((1,), sarray([0]) if g.sym else np.zeros(1))
    vals = [g.real(nm) for nm in GAUSS[gate]]
    op = getattr(ops, gate)(*vals)
    if dagger:
        op = op.H
    regs = [RegRef(m) for m in modes]
    rec = Rec()
    op.apply(regs, rec)
    ident = (C.ident(n, like_arr), C.zmat(n, like_arr), C.zvec(n, like_arr))
    total = ident
    for name, args in rec.calls:
        if name not in KERNEL_DOC:
            g.fact("unexpected backend call %s" % name, False)
            return
        k = 2 if name in ("beamsplitter", "two_mode_squeeze", "mzgate") else 1
        pars, tm = list(args[:-k]), [int(x) for x in args[-k:]]
        total = compose(total, c02.doc_spec(KERNEL_DOC[name], pars, tm, n, like_arr))
    doc = c02.doc_spec(gate, vals, list(modes), n, like_arr)
    if dagger:
        total = compose(doc, total)     # the documented gate followed by what was dispatched must be the identity
        doc = ident
    g.eq("A", total[0], doc[0])
    g.eq("B", total[1], doc[1])
    g.eq("d", total[2], doc[2])
    g.fact("operation left as it was", list(op.p) == vals and op.dagger == dagger)


def h_dispatch_nongauss(g, gate, dagger):
    """Kerr-type gates: U(k)^dagger = U(-k) and U(0) = 1, so the kernel must get +-kappa (or no call when kappa = 0)"""
    from strawberryfields import ops
    from strawberryfields.program_utils import RegRef
    names, kernel = NONGAUSS[gate]
    kappa = g.real("kappa")
    op = getattr(ops, gate)(kappa)
    if dagger:
        op = op.H
    ns = op.ns
    rec = Rec()
    op.apply([RegRef(m) for m in range(ns)], rec)
    if not rec.calls:
        g.eq("no call only when kappa = 0", kappa, 0 * kappa)
        return
    g.fact("kernel", [c[0] for c in rec.calls] == [kernel], detail=repr([c[0] for c in rec.calls]))
    g.eq("argument", rec.calls[0][1][0], -kappa if dagger else kappa)
    g.fact("modes", [int(x) for x in rec.calls[0][1][1:]] == list(range(ns)))


def jobs(ctx):
    fns = ["ops.Gate.apply", "ops.Dgate._apply", "ops.Sgate._apply", "ops.Rgate._apply", "ops.BSgate._apply", "ops.S2gate._apply",
           "ops.MZgate._apply / MZgate.apply", "ops.Kgate._apply", "ops.CKgate._apply", "parameters.par_evaluate"]
    for gate in GAUSS:
        for dagger in (False, True):
            for modes in ([(0,), (1,)] if len(GAUSS[gate]) == 1 or gate in ("Dgate", "Sgate") else [(0, 1), (1, 0)]):
                ctx.add("dispatch.%s%s%s" % (gate, ".H" if dagger else "", list(modes)), h_dispatch,
                        {"gate": gate, "dagger": dagger, "modes": list(modes)}, modules=mods, functions=fns,
                        bounds={"modes": 2, "parameters": "symbolic (the zero-first-parameter shortcut is a branch)",
                                "backend": "recording stub: any backend with a native kernel (fock, tf)"})
    for gate in NONGAUSS:
        for dagger in (False, True):
            ctx.add("dispatch.%s%s" % (gate, ".H" if dagger else ""), h_dispatch_nongauss, {"gate": gate, "dagger": dagger},
                    modules=mods, functions=fns, bounds={"parameters": "symbolic"})
