"""Harnesses over the Fock simulator's tensor plumbing with symbolic gate tensors and symbolic states."""
import itertools
import numpy as np

from symx import fn
from symx.symarray import sarray
from . import common as C


def fock_circuit(g, n, D, pure, name="psi"):
    from strawberryfields.backends.fockbackend.circuit import Circuit
    c = Circuit.__new__(Circuit)
    c._num_modes, c._trunc, c._pure, c._hbar, c._checks = n, D, pure, 2, False
    if pure:
        c._state = g.ctensor(name, (D,) * n)
    else:
        c._state = herm_tensor(g, name, n, D)
    return c


def herm_tensor(g, name, n, D):
    """density-matrix tensor with interleaved indices (a0,b0,a1,b1,...), Hermitian by construction"""
    rows = list(itertools.product(range(D), repeat=n))
    if g.sym:
        out = np.empty((D,) * (2 * n), dtype=object)
    else:
        out = np.zeros((D,) * (2 * n), dtype=complex)
    for ia, a in enumerate(rows):
        for ib, b in enumerate(rows):
            if ib < ia:
                continue
            idx = tuple(x for p in zip(a, b) for x in p)
            idxT = tuple(x for p in zip(b, a) for x in p)
            nm = "%s%s_%s" % (name, "".join(map(str, a)), "".join(map(str, b)))
            if ia == ib:
                out[idx] = g.real(nm) + (0 if g.sym else 0j)
            else:
                z = g.complex(nm)
                out[idx] = z
                out[idxT] = z.conjugate()
    return sarray(out) if g.sym else out


def as_matrix(rho, n, D):
    """interleaved tensor -> (D^n, D^n) matrix"""
    perm = [2 * i for i in range(n)] + [2 * i + 1 for i in range(n)]
    return np.transpose(rho, perm).reshape(D ** n, D ** n)


def from_matrix(m, n, D):
    t = m.reshape((D,) * (2 * n))
    perm = [0] * (2 * n)
    for i in range(n):
        perm[2 * i] = i
        perm[2 * i + 1] = n + i
    return np.transpose(t, perm)


def embed(G, modes, n, D, like):
    """operator on the full register (matrix D^n x D^n) of a gate matrix G acting on `modes` (in that order);
    G is indexed [out-multiindex, in-multiindex] over the listed modes"""
    k = len(modes)
    dim = D ** n
    full = fn.zeros((dim, dim), like)
    basis = list(itertools.product(range(D), repeat=n))
    pos = {b: i for i, b in enumerate(basis)}
    for bi, b in enumerate(basis):          # input basis state
        tin = tuple(b[m] for m in modes)
        for tout in itertools.product(range(D), repeat=k):
            e = G[tout + tin] if G.ndim == 2 * k else G[np.ravel_multi_index(tout, (D,) * k), np.ravel_multi_index(tin, (D,) * k)]
            o = list(b)
            for m, v in zip(modes, tout):
                o[m] = v
            full[pos[tuple(o)], bi] = full[pos[tuple(o)], bi] + e
    return full


def gate_tensor_2mode(g, D, rule, name="G"):
    """two-mode gate tensor in the Fock backend's index order [out1, in1, out2, in2], symbolic on the entries the
    selection rule allows and exactly 0 elsewhere.  rule: 'BS' (out1+out2 == in1+in2), 'S2' (out1-out2 == in1-in2),
    'any'"""
    if g.sym:
        G = np.empty((D,) * 4, dtype=object)
    else:
        G = np.zeros((D,) * 4, dtype=complex)
    for o1, i1, o2, i2 in itertools.product(range(D), repeat=4):
        ok = {"BS": o1 + o2 == i1 + i2, "S2": o1 - o2 == i1 - i2, "any": True}[rule]
        if ok:
            G[o1, i1, o2, i2] = g.complex("%s%d%d%d%d" % (name, o1, i1, o2, i2))
        else:
            G[o1, i1, o2, i2] = g.const(0) if g.sym else 0.0
    return sarray(G) if g.sym else G


def ref_apply(state, n, D, pure, Gfull):
    if pure:
        return (Gfull @ state.reshape(D ** n)).reshape((D,) * n)
    m = as_matrix(state, n, D)
    return from_matrix(Gfull @ m @ fn.conj(Gfull).T, n, D)


# ------------------------------------------------------------------------------------------ harnesses

def h_onemode(g, k, n, D, pure):
    c = fock_circuit(g, n, D, pure)
    s0 = c._state.copy()
    G = g.cmat("G", D)
    out = c.apply_gate_BLAS(G, [k])
    ref = ref_apply(s0, n, D, pure, embed(G, [k], n, D, s0))
    g.eq("state", out, ref)


def h_twomode_blas(g, modes, n, D, pure):
    c = fock_circuit(g, n, D, pure)
    s0 = c._state.copy()
    G = gate_tensor_2mode(g, D, "any")
    out = c.apply_gate_BLAS(G, list(modes))
    Gm = np.transpose(G, (0, 2, 1, 3))       # [out1,out2,in1,in2]
    ref = ref_apply(s0, n, D, pure, embed(Gm, list(modes), n, D, s0))
    g.eq("state", out, ref)


def h_twomode_sel(g, modes, n, D, pure, rule):
    c = fock_circuit(g, n, D, pure)
    s0 = c._state.copy()
    G = gate_tensor_2mode(g, D, rule)
    out = c.apply_twomode_gate(G, list(modes), gate={"BS": "BSgate", "S2": "S2gate"}[rule])
    Gm = np.transpose(G, (0, 2, 1, 3))
    ref = ref_apply(s0, n, D, pure, embed(Gm, list(modes), n, D, s0))
    g.eq("state", out, ref)


def h_channel(g, k, n, D, pure):
    c = fock_circuit(g, n, D, pure)
    s0 = c._state.copy()
    K1, K2 = g.cmat("K", D), g.cmat("L", D)
    c._apply_channel([K1, K2], [k])
    from strawberryfields.backends.fockbackend import ops as fo
    rho0 = fo.mix(s0, n) if pure else s0
    ref = ref_apply(rho0, n, D, False, embed(K1, [k], n, D, s0)) + ref_apply(rho0, n, D, False, embed(K2, [k], n, D, s0))
    g.fact("mixed_after_channel", c._pure is False)
    g.eq("state", c._state, ref)


def h_mix(g, n, D):
    """pure and mixed representations agree: mix(G psi) == G mix(psi) G^+"""
    c = fock_circuit(g, n, D, True)
    from strawberryfields.backends.fockbackend import ops as fo
    psi = c._state
    rho = fo.mix(psi, n)
    v = psi.reshape(D ** n)
    g.eq("mix", as_matrix(rho, n, D), np.outer(v, fn.conj(v)))


def h_partial_trace(g, modes, n, D):
    c = fock_circuit(g, n, D, False)
    from strawberryfields.backends.fockbackend import ops as fo
    rho = c._state
    red = fo.partial_trace(rho, n, list(modes))
    keep = [i for i in range(n) if i not in modes]
    ref = fn.zeros((D,) * (2 * len(keep)), rho)
    for idx in itertools.product(range(D), repeat=2 * len(keep)):
        tot = 0
        for t in itertools.product(range(D), repeat=len(modes)):
            full = [None] * (2 * n)
            for j, m in enumerate(keep):
                full[2 * m], full[2 * m + 1] = idx[2 * j], idx[2 * j + 1]
            for j, m in enumerate(modes):
                full[2 * m], full[2 * m + 1] = t[j], t[j]
            tot = tot + rho[tuple(full)]
        ref[idx] = tot
    g.eq("partial_trace", red, ref)
    c.dealloc(list(modes))
    g.eq("dealloc", c._state, ref)
    g.fact("dealloc.num_modes", c._num_modes == n - len(modes))


def h_prepare(g, modes, n, D, pure, ket):
    """prepare_multimode: target modes replaced by the given state (first subsystem of the input goes to modes[0]),
    everything else is the reduced old state, result is a product"""
    c = fock_circuit(g, n, D, pure)
    from strawberryfields.backends.fockbackend import ops as fo
    s0 = c._state.copy()
    k = len(modes)
    if ket:
        st = g.ctensor("phi", (D,) * k)
        sigma = fo.mix(st, k) if True else None
    else:
        st = herm_tensor(g, "sig", k, D)
        sigma = st
    c.prepare_multimode(st, list(modes))
    rho0 = fo.mix(s0, n) if pure else s0
    keep = [i for i in range(n) if i not in modes]
    # reference: explicit index formula rho'[..] = (tr_modes rho0)[keep indices] * sigma[target indices]
    got = c._state if not c._pure else fo.mix(c._state, n)
    red = ref_partial_trace(rho0, n, D, list(modes))
    ref = fn.zeros((D,) * (2 * n), rho0)
    for idx in itertools.product(range(D), repeat=2 * n):
        ri = tuple(x for m in keep for x in (idx[2 * m], idx[2 * m + 1]))
        si = tuple(x for m in modes for x in (idx[2 * m], idx[2 * m + 1]))
        ref[idx] = (red[ri] if keep else red) * sigma[si]
    g.eq("prepared", got, ref)


def ref_partial_trace(rho, n, D, modes):
    keep = [i for i in range(n) if i not in modes]
    ref = fn.zeros((D,) * (2 * len(keep)), rho)
    for idx in itertools.product(range(D), repeat=2 * len(keep)):
        tot = 0
        for t in itertools.product(range(D), repeat=len(modes)):
            full = [None] * (2 * n)
            for j, m in enumerate(keep):
                full[2 * m], full[2 * m + 1] = idx[2 * j], idx[2 * j + 1]
            for j, m in enumerate(modes):
                full[2 * m], full[2 * m + 1] = t[j], t[j]
            tot = tot + rho[tuple(full)]
        ref[idx] = tot
    if not keep:
        return ref[()] if hasattr(ref, "shape") and ref.shape == () else ref
    return ref


def h_unitary_spectators(g, k, n, D, pure):
    """a unitary on mode k (D=2, explicit parametrisation) leaves the reduced state of the other modes unchanged,
    as computed by the real partial_trace"""
    assert D == 2
    c = fock_circuit(g, n, D, pure)
    from strawberryfields.backends.fockbackend import ops as fo
    s0 = c._state.copy()
    al, be, ga, th = g.real("al"), g.real("be"), g.real("ga"), g.real("th")
    cs, sn = fn.cos(th), fn.sin(th)
    e = fn.expi
    U = fn.zeros((2, 2), s0)
    U[0, 0] = e(ga + al) * cs
    U[0, 1] = -e(ga - be) * sn
    U[1, 0] = e(ga + be) * sn
    U[1, 1] = e(ga - al) * cs
    out = c.apply_gate_BLAS(U, [k])
    r0 = fo.partial_trace(fo.mix(s0, n) if pure else s0, n, [k])
    r1 = fo.partial_trace(fo.mix(out, n) if pure else out, n, [k])
    g.eq("spectators.reduced", r1, r0)
    t0 = fo.trace(fo.mix(s0, n) if pure else s0, n)
    t1 = fo.trace(fo.mix(out, n) if pure else out, n)
    g.eq("trace", t1, t0)


def jobs(ctx, prefix=""):
    mods = C.fock_modules
    fns = ["Circuit.apply_gate_BLAS", "Circuit.apply_twomode_gate", "Circuit._apply_two_mode_passive",
           "Circuit._apply_S2", "Circuit._apply_channel", "Circuit.prepare_multimode", "Circuit.dealloc",
           "fockbackend.ops.mix", "fockbackend.ops.partial_trace", "fockbackend.ops.trace"]
    sizes = [(3, 2)] if not ctx.thorough else [(3, 2), (2, 3), (4, 2)]
    for n, D in sizes:
        for pure in (True, False):
            tag = "n%dD%d%s" % (n, D, "pure" if pure else "mixed")
            if not pure and D ** (2 * n) > 800:
                continue
            for k in range(n):
                ctx.add("%sfock.onemode[%d].%s" % (prefix, k, tag), h_onemode, {"k": k, "n": n, "D": D, "pure": pure},
                        modules=mods, functions=fns, bounds={"modes": n, "cutoff": D, "pure": pure, "gate": "arbitrary DxD matrix"})
                if D == 2:
                    ctx.add("%sfock.unitary_spectators[%d].%s" % (prefix, k, tag), h_unitary_spectators,
                            {"k": k, "n": n, "D": D, "pure": pure}, modules=mods, functions=fns,
                            bounds={"modes": n, "cutoff": D, "pure": pure, "gate": "arbitrary U(2)"})
                if n <= 3:
                    ctx.add("%sfock.channel[%d].%s" % (prefix, k, tag), h_channel, {"k": k, "n": n, "D": D, "pure": pure},
                            modules=mods, functions=fns, bounds={"modes": n, "cutoff": D, "pure": pure, "kraus": 2})
            for modes in C.ordered_choices(n, 2):
                if n > 3 and not (modes[0] > modes[1] or modes == (0, n - 1)):
                    continue
                ctx.add("%sfock.twomode_blas%s.%s" % (prefix, list(modes), tag), h_twomode_blas,
                        {"modes": list(modes), "n": n, "D": D, "pure": pure}, modules=mods, functions=fns,
                        bounds={"modes": n, "cutoff": D, "pure": pure, "gate": "arbitrary two-mode tensor"})
                for rule in ("BS", "S2"):
                    ctx.add("%sfock.twomode_%s%s.%s" % (prefix, rule, list(modes), tag), h_twomode_sel,
                            {"modes": list(modes), "n": n, "D": D, "pure": pure, "rule": rule}, modules=mods, functions=fns,
                            bounds={"modes": n, "cutoff": D, "pure": pure,
                                    "gate": "arbitrary tensor supported on the %s selection rule" % rule})
    n, D = 3, 2
    ctx.add("%sfock.mix.n%dD%d" % (prefix, n, D), h_mix, {"n": n, "D": D}, modules=mods, functions=fns,
            bounds={"modes": n, "cutoff": D})
    for r in (1, 2):
        for modes in itertools.combinations(range(n), r):
            ctx.add("%sfock.partial_trace%s" % (prefix, list(modes)), h_partial_trace, {"modes": list(modes), "n": n, "D": D},
                    modules=mods, functions=fns, bounds={"modes": n, "cutoff": D})
    for pure in (True, False):
        for ket in (True, False):
            for modes in [(0,), (1,), (2,), (0, 1), (1, 0), (2, 0), (1, 2), (2, 1), (0, 2)]:
                ctx.add("%sfock.prepare%s.%s.%s" % (prefix, list(modes), "pure" if pure else "mixed", "ket" if ket else "dm"),
                        h_prepare, {"modes": list(modes), "n": n, "D": D, "pure": pure, "ket": ket}, modules=mods,
                        functions=fns, bounds={"modes": n, "cutoff": D, "pure": pure, "input": "ket" if ket else "dm"})
