"""Fock-basis gate matrices (thewalrus recurrences run in Python mode on symbolic parameters) carry the documented
convention: Heisenberg intertwining relations away from the truncation edge + documented vacuum element."""
import itertools
import numpy as np

from symx import fn
from . import common as C


def _sq(k, like):
    return fn.sqrt(k + 0 * like) if k not in (0, 1) else (k + 0 * like)


def intertwine_1mode(g, label, G, D, A, B, d, one):
    """a G == G (A a + B a^dagger + d) on every entry that does not touch the truncation edge"""
    lhs, rhs = [], []
    for m in range(D - 1):
        for n in range(D):
            if n + 1 >= D and not _is_zero(B):
                continue
            l = _sq(m + 1, one) * G[m + 1, n]
            r = d * G[m, n]
            if n >= 1:
                r = r + A * _sq(n, one) * G[m, n - 1]
            if n + 1 < D:
                r = r + B * _sq(n + 1, one) * G[m, n + 1]
            lhs.append(l)
            rhs.append(r)
    g.eq(label, lhs, rhs)


def _is_zero(x):
    from symx.scalar import Sym
    if isinstance(x, Sym):
        return x.is_const() and x.const_value() == 0
    return x == 0


def intertwine_2mode(g, label, G, D, A, B, one):
    """G indexed [out1, in1, out2, in2]; a_i G == G sum_j (A_ij a_j + B_ij a_j^dagger)"""
    for i in (0, 1):
        lhs, rhs = [], []
        for m1, m2, n1, n2 in itertools.product(range(D), repeat=4):
            m = [m1, m2]
            n = [n1, n2]
            if m[i] + 1 >= D:
                continue
            skip = False
            for j in (0, 1):
                if not _is_zero(B[i][j]) and n[j] + 1 >= D:
                    skip = True
            if skip:
                continue
            mm = list(m)
            mm[i] += 1
            l = _sq(m[i] + 1, one) * G[mm[0], n1, mm[1], n2]
            r = 0 * one
            for j in (0, 1):
                if not _is_zero(A[i][j]) and n[j] >= 1:
                    nn = list(n)
                    nn[j] -= 1
                    r = r + A[i][j] * _sq(n[j], one) * G[m1, nn[0], m2, nn[1]]
                if not _is_zero(B[i][j]):
                    nn = list(n)
                    nn[j] += 1
                    r = r + B[i][j] * _sq(n[j] + 1, one) * G[m1, nn[0], m2, nn[1]]
            lhs.append(l)
            rhs.append(r)
        g.eq("%s.a%d" % (label, i + 1), lhs, rhs)


def h_gate(g, gate, D):
    from strawberryfields.backends.fockbackend import ops as fo
    one = g.const(1) if g.sym else 1.0
    zero = 0 * one
    if gate == "displacement":
        r, phi = g.real("r"), g.real("phi")
        G = fo.displacement.__wrapped__(r, phi, D)
        intertwine_1mode(g, "D", G, D, one, zero, r * fn.expi(phi), one)
        g.eq("D.vacuum", G[0, 0], fn.exp(-r * r / 2))
    elif gate == "squeezing":
        r, th = g.real("r"), g.real("theta")
        G = fo.squeezing.__wrapped__(r, th, D)
        intertwine_1mode(g, "S", G, D, fn.cosh(r), -fn.expi(th) * fn.sinh(r), zero, one)
        v = G[0, 0]
        g.eq("S.vacuum.sq", v * v * fn.cosh(r), one)
        g.holds("S.vacuum.pos", fn.real(v) > 0)
    elif gate == "phase":
        th = g.real("theta")
        G = fo.phase.__wrapped__(th, D)
        ref = fn.zeros((D, D), one)
        for n in range(D):
            ref[n, n] = fn.expi(n * th)
        g.eq("R", G, ref)
    elif gate == "kerr":
        k = g.real("kappa")
        G = fo.kerr.__wrapped__(k, D)
        ref = fn.zeros((D, D), one)
        for n in range(D):
            ref[n, n] = fn.expi(n * n * k)
        g.eq("K", G, ref)
    elif gate == "cross_kerr":
        k = g.real("kappa")
        G = fo.cross_kerr.__wrapped__(k, D)
        ref = fn.zeros((D,) * 4, one)
        for a, b in itertools.product(range(D), repeat=2):
            ref[a, a, b, b] = fn.expi(a * b * k)
        g.eq("CK", G, ref)
    elif gate == "beamsplitter":
        th, phi = g.real("theta"), g.real("phi")
        G = fo.beamsplitter.__wrapped__(th, phi, D)
        A, B, _ = C.spec("beamsplitter", (th, phi), (0, 1), 2, one)
        intertwine_2mode(g, "BS", G, D, A, B, one)
        g.eq("BS.vacuum", G[0, 0, 0, 0], one)
        sel = [G[i] for i in itertools.product(range(D), repeat=4) if i[0] + i[2] != i[1] + i[3]]
        g.eq("BS.selection_rule", sel, [zero] * len(sel))
    elif gate == "mzgate":
        pi_, pe = g.real("phi_in"), g.real("phi_ex")
        G = fo.mzgate.__wrapped__(pi_, pe, D)
        e_in, e_ex = fn.expi(pi_), fn.expi(pe)
        A = [[(e_in - 1) * e_ex / 2, 1j * (1 + e_in) / 2], [1j * (1 + e_in) * e_ex / 2, (1 - e_in) / 2]]
        B = [[zero, zero], [zero, zero]]
        intertwine_2mode(g, "MZ", G, D, A, B, one)
        g.eq("MZ.vacuum", G[0, 0, 0, 0], one)
        sel = [G[i] for i in itertools.product(range(D), repeat=4) if i[0] + i[2] != i[1] + i[3]]
        g.eq("MZ.selection_rule", sel, [zero] * len(sel))
    elif gate == "two_mode_squeeze":
        r, phi = g.real("r"), g.real("phi")
        G = fo.two_mode_squeeze.__wrapped__(r, phi, D)
        A, B, _ = C.spec("two_mode_squeeze", (r, phi), (0, 1), 2, one)
        intertwine_2mode(g, "S2", G, D, A, B, one)
        g.eq("S2.vacuum", G[0, 0, 0, 0] * fn.cosh(r), one)
        sel = [G[i] for i in itertools.product(range(D), repeat=4) if i[0] - i[2] != i[1] - i[3]]
        g.eq("S2.selection_rule", sel, [zero] * len(sel))
    elif gate == "coherent_state":
        r, phi = g.real("r"), g.real("phi")
        v = fo.coherentState.__wrapped__(r, phi, D)
        G = fo.displacement.__wrapped__(r, phi, D)
        g.eq("coherent=D|0>", v, G[:, 0])
    elif gate == "squeezed_state":
        r, th = g.real("r"), g.real("theta")
        v = fo.squeezedState.__wrapped__(r, th, D)
        G = fo.squeezing.__wrapped__(r, th, D)
        g.eq("squeezed=S|0>", v, G[:, 0])
    elif gate == "thermal_state":
        nb = g.real("nbar", lo=0)
        rho = fo.thermalState.__wrapped__(nb, D)
        ref = fn.zeros((D, D), one)
        for n in range(D):
            ref[n, n] = nb ** n / (nb + 1) ** (n + 1) + zero
        g.eq("thermal", rho, ref)
    elif gate == "loss_channel":
        T_ = g.real("T", lo=0, hi=1)
        Ks = fo.lossChannel.__wrapped__(T_, D)
        # sum_k K^+ K == identity (loss only lowers photon number: trace preserving on the truncated space)
        tot = fn.zeros((D, D), one)
        for K in Ks:
            tot = tot + fn.conj(K).T @ K
        g.eq("kraus.complete", tot, fn.eye(D, one))
        # documented action a -> sqrt(T) a (+ vacuum noise):  sum_k K^+ a K == sqrt(T) a
        a = fo.a(D)
        acc = fn.zeros((D, D), one)
        for K in Ks:
            acc = acc + fn.conj(K).T @ a @ K
        g.eq("kraus.heisenberg_a", acc, fn.sqrt(T_) * a)
        acc = fn.zeros((D, D), one)
        num = fn.conj(a).T @ a
        for K in Ks:
            acc = acc + fn.conj(K).T @ num @ K
        g.eq("kraus.heisenberg_n", acc, T_ * num)
    else:
        raise KeyError(gate)


GATES = ["displacement", "squeezing", "phase", "kerr", "cross_kerr", "beamsplitter", "mzgate", "two_mode_squeeze",
         "coherent_state", "squeezed_state", "thermal_state", "loss_channel"]


def jobs(ctx, only=None, prefix=""):
    D = 4 if not ctx.thorough else 5
    for gate in GATES:
        if only and gate not in only:
            continue
        d = D if gate not in ("beamsplitter", "mzgate", "two_mode_squeeze") or ctx.thorough else 3
        ctx.add("%sfockgate.%s.D%d" % (prefix, gate, d), h_gate, {"gate": gate, "D": d}, modules=C.fock_modules,
                functions=["fockbackend.ops.%s" % gate, "thewalrus.fock_gradients.*"],
                bounds={"cutoff": d, "parameters": "all real values"})
