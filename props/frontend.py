"""Running front-end objects (Program / Command / Operation) on symbolic backends."""
import numpy as np

from symx import fn
from . import common as C


def frontend_modules():
    import strawberryfields.ops as ops
    import strawberryfields.parameters as prm
    import strawberryfields.program_utils as pu
    return [ops]


def all_modules():
    return C.gauss_modules() + frontend_modules()


def free(prog_or_name, name=None):
    """FreeParameter bound (now) to nothing; bind with bind()"""
    from strawberryfields.parameters import FreeParameter
    return FreeParameter(prog_or_name if name is None else name)


def bind(par, value):
    par.val = value
    return par


def apply_cmds(cmds, backend):
    out = []
    for cmd in cmds:
        out.append(cmd.op.apply(cmd.reg, backend))
    return out


def regs(n):
    from strawberryfields.program_utils import RegRef
    return [RegRef(i) for i in range(n)]


def compile_cmds(cmds, n, compiler="gaussian", **kw):
    """wrap commands into a Program and compile with the real compiler"""
    import strawberryfields as sf
    prog = sf.Program(n)
    prog.circuit = list(cmds)
    prog._is_locked = False
    # the commands refer to their own RegRef objects: rebuild on the program's register
    from strawberryfields.program_utils import Command
    new = []
    for c in cmds:
        new.append(Command(c.op, [prog.register[r.ind] for r in c.reg]))
    prog.circuit = new
    return prog.compile(compiler=compiler, **kw)


def gauss_final(be):
    c = be.circuit
    return c.nmat, c.mmat, c.mean


def eq_gauss_state(g, label, s1, s2):
    g.eq(label + ".mean", s1[2], s2[2])
    g.eq(label + ".N", s1[0], s2[0])
    g.eq(label + ".M", s1[1], s2[1])
