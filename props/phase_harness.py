"""Harnesses over the Gaussian and bosonic backends' operation set (shared by C01, C05, C07).

what = "ref"        : C01  result equals the documented map (notes/conventions.md) from an arbitrary state
what = "spectators" : C05  everything not belonging to the target modes is untouched / target is decoupled
what = "physical"   : C07  structure (Hermitian N, symmetric M / covs), weights, conservation, CP certificates
"""
import numpy as np

from symx import fn
from . import common as C

# op -> (parameter declarations, number of target modes)
OPS = {
    "rotation": ([("phi", {})], 1),
    "displacement": ([("r", {}), ("phi", {})], 1),
    "squeeze": ([("r", {}), ("phi", {})], 1),
    "beamsplitter": ([("theta", {}), ("phi", {})], 2),
    "loss": ([("T", {"lo": 0, "hi": 1})], 1),
    "thermal_loss": ([("T", {"lo": 0, "hi": 1}), ("nbar", {"lo": 0})], 1),
    "prepare_vacuum_state": ([], 1),
    "prepare_coherent_state": ([("r", {}), ("phi", {})], 1),
    "prepare_squeezed_state": ([("r", {}), ("phi", {})], 1),
    "prepare_displaced_squeezed_state": ([("rd", {}), ("phid", {}), ("rs", {}), ("phis", {})], 1),
    "prepare_thermal_state": ([("nbar", {"lo": 0})], 1),
}
UNITARY = ("rotation", "displacement", "squeeze", "beamsplitter")
PREPS = tuple(o for o in OPS if o.startswith("prepare_"))


def declare(g, op):
    return [g.real(nm, **kw) for nm, kw in OPS[op][0]]


def unitary_sequence(op, p):
    """a preparation = reset followed by these documented unitaries"""
    if op == "prepare_coherent_state":
        return [("displacement", (p[0], p[1]))]
    if op == "prepare_squeezed_state":
        return [("squeeze", (p[0], p[1]))]
    if op == "prepare_displaced_squeezed_state":
        return [("squeeze", (p[2], p[3])), ("displacement", (p[0], p[1]))]
    return []


def ref_gauss(op, p, modes, N, M, a):
    n = len(a)
    if op in UNITARY:
        A, B, d = C.spec(op, p, modes, n, N)
        return C.bogoliubov_nm(N, M, a, A, B, d)
    if op == "loss":
        return C.loss_nm(N, M, a, p[0], 0, modes[0])
    if op == "thermal_loss":
        return C.loss_nm(N, M, a, p[0], p[1], modes[0])
    if op in PREPS:
        k = modes[0]
        N2, M2, a2 = N.copy(), M.copy(), a.copy()
        for j in range(n):
            N2[k, j] = 0 * N2[k, j]
            N2[j, k] = 0 * N2[j, k]
            M2[k, j] = 0 * M2[k, j]
            M2[j, k] = 0 * M2[j, k]
        a2[k] = 0 * a2[k]
        if op == "prepare_thermal_state":
            N2[k, k] = N2[k, k] + p[0]
        for uop, up in unitary_sequence(op, p):
            A, B, d = C.spec(uop, up, modes, n, N)
            N2, M2, a2 = C.bogoliubov_nm(N2, M2, a2, A, B, d)
        return N2, M2, a2
    raise KeyError(op)


def h_gauss(g, op, modes, n, what):
    be = C.gauss_backend(g, n)
    N0, M0, a0 = C.gauss_snapshot(be)
    p = declare(g, op)
    getattr(be, op)(*p, *modes)
    c = be.circuit
    N1, M1, a1 = c.nmat, c.mmat, c.mean
    others = [i for i in range(n) if i not in modes]
    if what == "ref":
        Nr, Mr, ar = ref_gauss(op, p, modes, N0, M0, a0)
        g.eq("mean", a1, ar)
        g.eq("N", N1, Nr)
        g.eq("M", M1, Mr)
    elif what == "spectators":
        ix = np.ix_(others, others)
        g.eq("spectator.mean", a1[others], a0[others])
        g.eq("spectator.N", N1[ix], N0[ix])
        g.eq("spectator.M", M1[ix], M0[ix])
        if op in PREPS:
            k = modes[0]
            g.eq("prep.crossN", N1[k, others], 0 * N0[k, others])
            g.eq("prep.crossNT", N1[others, k], 0 * N0[others, k])
            g.eq("prep.crossM", M1[k, others], 0 * M0[k, others])
            g.eq("prep.crossMT", M1[others, k], 0 * M0[others, k])
            # the prepared mode does not depend on the previous state: compare with the same preparation from vacuum
            Nr, Mr, ar = ref_gauss(op, p, modes, 0 * N0, 0 * M0, 0 * a0)
            g.eq("prep.target", [N1[k, k], M1[k, k], a1[k]], [Nr[k, k], Mr[k, k], ar[k]])
    elif what == "physical":
        g.eq("N.hermitian", N1, fn.conj(N1).T)
        g.eq("M.symmetric", M1, M1.T)
        tot0 = sum(N0[i, i] + a0[i] * fn.conj(a0[i]) for i in range(n))
        tot1 = sum(N1[i, i] + a1[i] * fn.conj(a1[i]) for i in range(n))
        if op in ("rotation", "beamsplitter"):
            g.eq("photon_number.conserved", tot1, tot0)
        if op == "loss":
            k = modes[0]
            g.eq("loss.Nkk", N1[k, k], p[0] * N0[k, k])
            g.eq("loss.mean", a1[k] * fn.conj(a1[k]), p[0] * a0[k] * fn.conj(a0[k]))
        # covariance matrix handed to users: real and symmetric
        V = c.scovmat()
        g.eq("scovmat.symmetric", V, V.T)
        g.eq("scovmat.real", fn.imag(V), 0 * fn.real(V))
    else:
        raise KeyError(what)


# --------------------------------------------------------------------------- bosonic

def ref_bosonic(op, p, modes, n, means, covs):
    like = covs
    if op in UNITARY:
        A, B, d = C.spec(op, p, modes, n, like)
        S, dv = C.symplectic_xpxp(A, B, d)
        return C.phase_apply(means, covs, S, dv)
    if op in ("loss", "thermal_loss"):
        nbar = p[1] if op == "thermal_loss" else 0
        X, Y = C.loss_xy(p[0], nbar, modes[0], n, like)
        return C.phase_apply(means, covs, X, 0 * X[0], Y)
    if op in PREPS:
        k = modes[0]
        nbar = p[0] if op == "prepare_thermal_state" else 0
        X, Y = C.loss_xy(0, nbar, k, n, like)
        m2, c2 = C.phase_apply(means, covs, X, 0 * X[0], Y)
        for uop, up in unitary_sequence(op, p):
            A, B, d = C.spec(uop, up, modes, n, like)
            S, dv = C.symplectic_xpxp(A, B, d)
            m2, c2 = C.phase_apply(m2, c2, S, dv)
        return m2, c2
    raise KeyError(op)


def h_bosonic(g, op, modes, n, what, J=2):
    be = C.bosonic_backend(g, n, J=J)
    w0, m0, c0 = C.bosonic_snapshot(be)
    cptp = None
    if op.startswith("gaussian_cptp"):
        # deterministic Gaussian channel given by matrices: X arbitrary real 2x2, Y symmetric real 2x2 or omitted
        X = g.rmat("X", 2)
        Y = g.rsymm("Y", 2) if op.endswith(".Y") else None
        try:
            be.gaussian_cptp(list(modes), X, Y)
        except (IndexError, ValueError, TypeError) as e:
            g.fact("gaussian_cptp%s runs" % ("" if Y is not None else " without Y"), False, detail="%s: %s" % (type(e).__name__, e))
            return
        p = []
        k = modes[0]
        Xf = fn.eye(2 * n, c0[0])
        Yf = 0 * fn.eye(2 * n, c0[0])
        for a_ in range(2):
            for b_ in range(2):
                Xf[2 * k + a_, 2 * k + b_] = X[a_, b_] + 0 * Xf[2 * k + a_, 2 * k + b_]
                if Y is not None:
                    Yf[2 * k + a_, 2 * k + b_] = Y[a_, b_] + 0 * Yf[2 * k + a_, 2 * k + b_]
        cptp = (Xf, Yf)
    else:
        p = declare(g, op)
        getattr(be, op)(*p, *modes)
    c = be.circuit
    w1, m1, c1 = c.weights, c.means, c.covs
    others = [i for i in range(n) if i not in modes]
    oq = [q for i in others for q in (2 * i, 2 * i + 1)]
    tq = [q for i in modes for q in (2 * i, 2 * i + 1)]
    if what == "ref":
        if cptp is not None:
            mr, cr = C.phase_apply(m0, c0, cptp[0], 0 * cptp[0][0], cptp[1])
        else:
            mr, cr = ref_bosonic(op, p, modes, n, m0, c0)
        g.eq("weights", w1, w0)
        g.eq("means", m1, mr)
        g.eq("covs", c1, cr)
    elif what == "spectators":
        g.eq("weights", w1, w0)
        g.eq("spectator.means", m1[:, oq], m0[:, oq])
        g.eq("spectator.covs", c1[:, oq][:, :, oq], c0[:, oq][:, :, oq])
        if op in PREPS:
            g.eq("prep.cross", c1[:, tq][:, :, oq], 0 * c0[:, tq][:, :, oq])
            g.eq("prep.crossT", c1[:, oq][:, :, tq], 0 * c0[:, oq][:, :, tq])
            mr, cr = ref_bosonic(op, p, modes, n, 0 * m0, 0 * c0)
            g.eq("prep.target.means", m1[:, tq], mr[:, tq])
            g.eq("prep.target.covs", c1[:, tq][:, :, tq], cr[:, tq][:, :, tq])
    elif what == "physical":
        g.eq("weights.sum", sum(w1), sum(w0))
        for j in range(J):
            g.eq("covs%d.symmetric" % j, c1[j], c1[j].T)
    else:
        raise KeyError(what)


def jobs(ctx, what, prefix=""):
    """register one job per (backend, op, ordered target choice)"""
    n = 3 if not ctx.thorough else 4
    for op in ("gaussian_cptp.Y", "gaussian_cptp.noY"):
        for k in (0, 1):
            ctx.add("%sbosonic.%s[%d]" % (prefix, op, k), h_bosonic, {"op": op, "modes": [k], "n": 2, "what": what, "J": 2},
                    modules=C.bosonic_modules, functions=["BosonicBackend.gaussian_cptp", "BosonicModes.{expandS,expandXY,apply_channel}"],
                    bounds={"modes": 2, "targets": [k], "peaks": 2, "X": "arbitrary real 2x2", "Y": "symmetric real 2x2 / omitted"})
    for op, (decl, k) in OPS.items():
        for modes in C.ordered_choices(n, k):
            if not ctx.thorough and n == 3 and k == 1 and modes[0] == 0 and what != "ref":
                pass
            ctx.add("%sgaussian.%s%s" % (prefix, op, list(modes)), h_gauss,
                    {"op": op, "modes": list(modes), "n": n, "what": what},
                    modules=C.gauss_modules,
                    functions=["GaussianBackend.%s" % op, "GaussianModes.*"],
                    bounds={"modes": n, "targets": list(modes), "state": "arbitrary (N Hermitian, M symmetric, alpha complex)"})
            nb = 2 if not ctx.thorough else 3
            ctx.add("%sbosonic.%s%s" % (prefix, op, list(modes)), h_bosonic,
                    {"op": op, "modes": list(modes), "n": nb if k <= nb else n, "what": what, "J": 2},
                    modules=C.bosonic_modules,
                    functions=["BosonicBackend.%s" % op, "BosonicModes.*", "thewalrus.symplectic.*"],
                    bounds={"modes": nb, "targets": list(modes), "peaks": 2,
                            "state": "arbitrary (complex weights and means, symmetric covs)"}) if max(modes) < nb else None
