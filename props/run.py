"""entry point: /verif/check <ID> [--tier quick|thorough] [--replay FILE]"""
import argparse
import importlib
import json
import os
import shutil
import sys
import tempfile


def main():
    ap = argparse.ArgumentParser()
    ap.add_argument("prop")
    ap.add_argument("--tier", default=os.environ.get("VERIF_TIER", "quick"))
    ap.add_argument("--replay", default=None)
    ap.add_argument("--only", default=None, help="regex on job names (development aid)")
    ap.add_argument("--workers", type=int, default=None)
    a = ap.parse_args()
    tier = a.tier if a.tier in ("quick", "thorough") else "quick"
    work = tempfile.mkdtemp(prefix="sfverif.")
    os.environ["VERIF_WORK"] = work
    try:
        from symx import harness, report
        if a.replay:
            rep = json.load(open(a.replay))
            mod = importlib.import_module(rep["module"])
            hfn = getattr(mod, rep["function"])
            out = harness.replay(hfn, rep["params"], rep["assignment"], rep["obligation"].split("[")[0].rsplit(".", 1)[0]
                                 if False else _label_of(rep["obligation"]), rep["obligation"], tier)
            print(json.dumps({k: v for k, v in out.items()}, indent=1, default=str))
            print("reproduced" if out.get("reproduced") else "NOT reproduced")
            return 0 if out.get("reproduced") else 3
        mod = importlib.import_module("props.%s" % a.prop.lower())
        ctx = harness.Ctx(a.prop.upper(), tier=tier)
        mod.build(ctx)
        if a.only:
            import re
            ctx.jobs = [j for j in ctx.jobs if re.search(a.only, j.name)]
        xh = mod.xh(ctx) if hasattr(mod, "xh") and not a.only else None
        summaries = ctx.execute(workers=a.workers) if ctx.jobs else []
        extra = mod.post(ctx, summaries) if hasattr(mod, "post") else None
        return report.finish(ctx, summaries, extra_coverage=extra, xh=xh)
    finally:
        shutil.rmtree(work, ignore_errors=True)


def _label_of(goal):
    import re
    m = re.match(r"(.*?)(\[[^\]]*\])?\.(re|im)$", goal)
    return m.group(1) if m else goal


if __name__ == "__main__":
    sys.exit(main())
