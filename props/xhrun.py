"""Runs CrossHair conditions (one OS process per condition, in parallel) and classifies the outcomes.

Only "Confirmed over all paths" counts as discharged.  "Not confirmed" / "Unable to meet precondition" / timeouts are
inconclusive.  A counterexample is replayed concretely (plain Python, no tracing) before it is reported.  Twins (same
harness, false postcondition) must be refuted: they show that the harness reaches its assertion."""
import ast
import concurrent.futures as cf
import importlib.util
import os
import re
import subprocess
import sys
import time

VERIF = os.path.dirname(os.path.dirname(os.path.abspath(__file__)))
VENV = os.environ.get("VERIF_VENV", os.path.join(VERIF, ".venv"))


def ensure_venv():
    if not os.path.exists(os.path.join(VENV, "bin", "crosshair")):
        env = dict(os.environ, VERIF_VENV=VENV)
        try:
            subprocess.run([os.path.join(VERIF, "tools", "setup_venv.sh")], check=True, env=env, stdout=subprocess.DEVNULL,
                           stderr=subprocess.DEVNULL)
        except Exception:
            # /verif not writable: build under the scratch directory
            alt = os.path.join(os.environ.get("VERIF_WORK", "/tmp"), "venv")
            env["VERIF_VENV"] = alt
            subprocess.run([os.path.join(VERIF, "tools", "setup_venv.sh")], check=True, env=env, stdout=subprocess.DEVNULL,
                           stderr=subprocess.DEVNULL)
            globals()["VENV"] = alt


def _line_of(path, func):
    for i, ln in enumerate(open(path), 1):
        if re.match(r"def %s\(" % re.escape(func), ln):
            return i + 1
    raise KeyError(func)


def _run_one(path, func, timeout_s):
    t0 = time.time()
    line = _line_of(path, func)
    cmd = [os.path.join(VENV, "bin", "crosshair"), "check", "--report_all", "--per_condition_timeout", str(timeout_s),
           "%s:%d" % (path, line)]
    env = dict(os.environ, PYTHONWARNINGS="ignore", PYTHONPATH=os.path.dirname(path) + ":" + VERIF)
    env.pop("NUMBA_DISABLE_JIT", None)
    try:
        p = subprocess.run(cmd, capture_output=True, text=True, timeout=timeout_s + 120, env=env)
        out = p.stdout + p.stderr
    except subprocess.TimeoutExpired:
        out = "TIMEOUT"
    dt = time.time() - t0
    lines = [l for l in out.splitlines() if path in l or l == "TIMEOUT"]
    verdict, detail = "inconclusive", ""
    for l in lines:
        if "Confirmed over all paths" in l:
            verdict = "confirmed"
        elif ": error:" in l:
            verdict, detail = "refuted", l.split(": error:", 1)[1].strip()
        elif "Not confirmed" in l or "Unable to meet precondition" in l or l == "TIMEOUT":
            verdict, detail = "inconclusive", l.split("info:", 1)[-1].strip()
    if not lines:
        detail = out[-300:]
    return func, verdict, detail, dt


def _replay(path, func, detail):
    """re-run the counterexample CrossHair printed, concretely"""
    m = re.search(r"when calling (%s\(.*\))(?: \(which|$)" % re.escape(func), detail)
    if not m:
        return None, "cannot parse counterexample"
    call = m.group(1)
    code = ("import sys; sys.path.insert(0, %r); sys.path.insert(0, %r)\n"
            "import importlib.util\n"
            "spec = importlib.util.spec_from_file_location('m', %r); m = importlib.util.module_from_spec(spec); spec.loader.exec_module(m)\n"
            "ns = dict(vars(m))\n"
            "try:\n    r = eval(%r, ns)\n    print('RESULT', repr(r))\nexcept Exception as e:\n    print('RAISED', type(e).__name__, e)\n") % (
        os.path.dirname(path), VERIF, path, call)
    p = subprocess.run([os.path.join(VENV, "bin", "python"), "-W", "ignore", "-c", code], capture_output=True, text=True, timeout=300)
    out = [l for l in p.stdout.splitlines() if l.startswith(("RESULT", "RAISED"))]
    return call, (out[-1] if out else p.stderr[-300:])


def run(path, checks, twins, timeout_s, prop, workers=16):
    """returns dict with status (0/1/2/3), lines to print, coverage info"""
    ensure_venv()
    path = os.path.join(VERIF, path) if not os.path.isabs(path) else path
    results = {}
    with cf.ThreadPoolExecutor(max_workers=workers) as ex:
        futs = [ex.submit(_run_one, path, f, timeout_s) for f in list(checks) + list(twins)]
        for fu in cf.as_completed(futs):
            f, v, d, dt = fu.result()
            results[f] = (v, d, dt)
    status = 0
    lines = []
    conds = []
    violations = []
    for f in checks:
        v, d, dt = results[f]
        rec = {"condition": f, "verdict": v, "time_s": round(dt, 1)}
        if v == "refuted":
            call, rep = _replay(path, f, d)
            rec["counterexample"] = call
            rec["replay"] = rep
            if rep and (rep.startswith("RESULT False") or rep.startswith("RAISED")):
                violations.append((f, call, rep))
            else:
                lines.append("HARNESS-ERROR: CrossHair counterexample for %s did not reproduce: %s -> %s" % (f, call, rep))
                status = max(status, 3)
        elif v != "confirmed":
            lines.append("INCONCLUSIVE: CrossHair condition %s: %s" % (f, d or "not confirmed over all paths within the budget"))
            if status == 0:
                status = 2
        conds.append(rec)
    twin_ok = 0
    for f in twins:
        v, d, dt = results[f]
        if v == "refuted":
            twin_ok += 1
        else:
            lines.append("HARNESS-ERROR (vacuity): reachability twin %s was not refuted (%s)" % (f, v))
            status = max(status, 3)
        conds.append({"condition": f, "verdict": v, "time_s": round(dt, 1), "twin": True})
    return {"status": status, "lines": lines, "violations": violations, "conditions": conds,
            "confirmed": sum(1 for c in conds if c["verdict"] == "confirmed" and not c.get("twin")),
            "twins_refuted": twin_ok, "file": os.path.relpath(path, VERIF), "timeout_s": timeout_s}
