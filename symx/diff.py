"""Exact symbolic differentiation of terms / Sym values with respect to a variable.

The derivative of a term is returned as a (real) Sym, i.e. a quotient of division-free terms, so that the
rules for sqrt, quotients and inverse functions need no new term operators.  Every rule is the textbook one;
floor terms have derivative 0 (they are piecewise constant, the rule holds away from the jump points) and
`ite` differentiates branch-wise (away from the switching surface).
"""
from fractions import Fraction

from . import term as T
from .scalar import Sym, Q, QZERO, tosym, sym_ite, mkbool

_memo = {}


def _form_term(form):
    parts = [T.scale(c, b) for _, (b, c) in sorted(form.items.items())]
    if form.pim != 0:
        parts.append(T.scale(form.pim, T.PI))
    if form.const != 0:
        parts.append(T.const(form.const))
    return T.add(*parts) if parts else T.ZERO


def _dform(form, v):
    out = Sym.const(0)
    for _, (b, c) in sorted(form.items.items()):
        if b.op == "const":
            continue
        out = out + dterm(b, v) * Sym.const(c)
    return out


def _S(t):
    return Sym(Q(t))


def dterm(t, v):
    """d t / d v as a real Sym (v: a `var` term)"""
    key = (t.id, v.id)
    r = _memo.get(key)
    if r is not None:
        return r
    r = _dterm(t, v)
    _memo[key] = r
    return r


def _dterm(t, v):
    op = t.op
    if op == "const":
        return Sym.const(0)
    if op == "var":
        return Sym.const(1 if t is v else 0)
    if op == "add":
        _, coefs = t.val
        out = Sym.const(0)
        for c, a in zip(coefs, t.args):
            d = dterm(a, v)
            if not (d.is_const() and d.const_value() == 0):
                out = out + d * Sym.const(c)
        return out
    if op == "mul":
        out = Sym.const(0)
        for i, (e, a) in enumerate(zip(t.val, t.args)):
            d = dterm(a, v)
            if d.is_const() and d.const_value() == 0:
                continue
            others = [T.powi(b, f) for j, (f, b) in enumerate(zip(t.val, t.args)) if j != i]
            rest = T.mul(*(others + [T.powi(a, e - 1)])) if (others or e > 1) else T.ONE
            out = out + d * _S(rest) * Sym.const(e)
        return out
    if op in ("trig", "hyp"):
        kind, form = T.form_of_atom(t)
        inner = _form_term(form)
        di = _dform(form, v)
        if di.is_const() and di.const_value() == 0:
            return Sym.const(0)
        if kind == "cos":
            return -(_S(T.trig("sin", inner)) * di)
        if kind == "sin":
            return _S(T.trig("cos", inner)) * di
        if kind == "cosh":
            return _S(T.hyp("sinh", inner)) * di
        if kind == "sinh":
            return _S(T.hyp("cosh", inner)) * di
        raise NotImplementedError(kind)
    if op == "sqrt":
        n, d = t.args
        dq = dsym(Sym(Q(n, d)), v)
        if dq.is_const() and dq.const_value() == 0:
            return Sym.const(0)
        return dq / (_S(t) * 2)
    if op == "quot":
        n, d = t.args
        return dsym(Sym(Q(n, d)), v)
    if op == "log":
        return dterm(t.args[0], v) / _S(t.args[0])
    if op == "atan":
        if len(t.args) == 2:
            n, d = t.args
            dn, dd = dterm(n, v), dterm(d, v)
            return (dn * _S(d) - _S(n) * dd) / _S(T.add(T.mul(n, n), T.mul(d, d)))
        x = t.args[0]
        return dterm(x, v) / _S(T.add(T.ONE, T.mul(x, x)))
    if op == "atan2":
        y, x = t.args
        return (_S(x) * dterm(y, v) - _S(y) * dterm(x, v)) / _S(T.add(T.mul(x, x), T.mul(y, y)))
    if op in ("asinh", "acosh", "asin", "acos"):
        x = t.args[0]
        xx = T.mul(x, x)
        rad = {"asinh": T.add(T.ONE, xx), "acosh": T.sub(xx, T.ONE), "asin": T.sub(T.ONE, xx), "acos": T.sub(T.ONE, xx)}[op]
        d = dterm(x, v) / _S(T.sqrt(rad))
        return -d if op == "acos" else d
    if op == "floordiv":
        return Sym.const(0)
    if op == "ite":
        c, a, b = t.args
        return sym_ite(mkbool(c), dterm(a, v), dterm(b, v))
    if op == "toreal":
        return Sym.const(0)
    raise NotImplementedError("derivative of %s" % op)


def _dq(q, v):
    """derivative of the quotient q = n/d as a real Sym"""
    dn = dterm(q.n, v)
    if q.d is T.ONE:
        return dn
    dd = dterm(q.d, v)
    if dd.is_const() and dd.const_value() == 0:
        return dn / _S(q.d)
    return (dn * _S(q.d) - _S(q.n) * dd) / _S(T.mul(q.d, q.d))


def dsym(x, v):
    """d x / d v for a Sym x (complex allowed) and a real variable v given as a Sym or a term"""
    x = tosym(x)
    if isinstance(v, Sym):
        v = v.rterm()
    assert v.op == "var", "differentiation variable must be a plain variable"
    re = _dq(x.re, v)
    if x.im.n is T.ZERO:
        return re
    im = _dq(x.im, v)
    return re + im * Sym(QZERO, Q(T.ONE))
