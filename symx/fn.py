"""Mode-agnostic maths for reference models written in harnesses: work on Sym, SymArray, floats and ndarrays."""
import cmath
import math
import numpy as np
from .scalar import Sym, tosym, SymBool, sym_ite
from .symarray import SymArray, sarray, has_sym, inv as _sinv, det as _sdet, _map
from . import term as T
from .scalar import Q


def _is_sym(x):
    return isinstance(x, (Sym, SymArray)) or has_sym(x)


def _u(name, method=None):
    method = method or name

    def f(x):
        if isinstance(x, Sym):
            return getattr(x, method)()
        if isinstance(x, SymArray):
            return getattr(np, name)(x)
        return getattr(np, name)(x)
    return f


cos = _u("cos")
sin = _u("sin")
cosh = _u("cosh")
sinh = _u("sinh")
tanh = _u("tanh")
sqrt = _u("sqrt")
exp = _u("exp")
arctan = _u("arctan")
arcsinh = _u("arcsinh")
arccosh = _u("arccosh")


def arctan2(y, x):
    if isinstance(y, Sym) or isinstance(x, Sym):
        return tosym(y).arctan2(tosym(x))
    return np.arctan2(y, x)


def expi(phi):
    """e^{i phi}"""
    if isinstance(phi, Sym):
        return (1j * phi).exp()
    return np.exp(1j * phi)


def conj(x):
    if isinstance(x, Sym):
        return x.conjugate()
    return np.conj(x)


def real(x):
    if isinstance(x, (Sym, SymArray)):
        return x.real
    return np.real(x)


def imag(x):
    if isinstance(x, (Sym, SymArray)):
        return x.imag
    return np.imag(x)


def inv(a):
    if _is_sym(a):
        return _sinv(a)
    return np.linalg.inv(a)


def det(a):
    if _is_sym(a):
        return _sdet(a)
    return np.linalg.det(a)


def dagger(a):
    return conj(a).T


def zeros(shape, like):
    """array of zeros of the same kind (symbolic / float complex) as `like`"""
    if _is_sym(like):
        from .symarray import szeros
        return szeros(shape, 0)
    return np.zeros(shape, dtype=complex)


def eye(n, like):
    z = zeros((n, n), like)
    for i in range(n):
        z[i, i] = z[i, i] + 1
    return z


def asarr(x, like=None):
    if _is_sym(x) or (like is not None and _is_sym(like)):
        return sarray(x)
    return np.asarray(x)


def ite(c, a, b):
    if isinstance(c, SymBool):
        return sym_ite(c, a, b)
    return a if c else b
