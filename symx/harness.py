"""Harness runner: symbolic exploration (all paths), solver obligations, counterexample replay against the
unpatched float code, encoding validation, vacuity witnesses, evidence."""
import hashlib
import json
import math
import multiprocessing as mp
import os
import random
import re
import sys
import time
import traceback
from fractions import Fraction

import numpy as np

from . import term as T
from . import smt, solver, state
from .scalar import Sym, SymBool, tosym, Q, _qeq, as_bool_term
from .symarray import SymArray, sarray, Installed, RandomStub, has_sym, _strip


_ABSENT = object()


class AssumptionFailed(Exception):
    pass


class HarnessError(Exception):
    pass


FAST_MS = int(os.environ.get("VERIF_FAST_MS", "3000"))


class Gen:
    """handed to harness functions; the same harness body runs in symbolic and in concrete mode"""

    def __init__(self, mode, env=None, run=None, tier="quick", slow_s=60, params=None):
        self.mode = mode
        self.sym = mode == "sym"
        self.env = env or {}
        self.run = run
        self.tier = tier
        self.slow_s = slow_s
        self.params = params or {}
        self.declared = {}          # name -> (lo, hi)
        self.records = []           # sym: obligation records; conc: (label, lhs, rhs)
        self.conc = {}              # concrete: label -> (lhs array, rhs array) / bool
        self.results = []           # sym: per-goal results
        self.stop_labels = set()
        self.random = None
        self._patched = []
        self.notes = []
        self.reached = 0
        self.twin_done = False
        self.twins = []
        self.skip_solve = False

    # ------------------------------------------------------------------ values
    @property
    def pi(self):
        return Sym(Q(T.PI)) if self.sym else math.pi

    def real(self, name, lo=None, hi=None, lo_strict=False, hi_strict=False, nonzero=False):
        if name in self.declared:
            raise HarnessError("variable %s declared twice" % name)
        self.declared[name] = (lo, hi, lo_strict, hi_strict, nonzero)
        if self.sym:
            v = T.var(name)
            if lo is not None:
                self.run.assumptions.append((T.lt if lo_strict else T.le)(T.const(lo), v))
            if hi is not None:
                self.run.assumptions.append((T.lt if hi_strict else T.le)(v, T.const(hi)))
            if nonzero:
                self.run.assumptions.append(T.not_(T.eq(v, T.ZERO)))
            self.run.vars[name] = (lo, hi)
            return Sym(Q(v))
        if name not in self.env:
            raise HarnessError("no concrete value for %s" % name)
        return float(self.env[name])

    def complex(self, name):
        return self.real(name + ".re") + 1j * self.real(name + ".im")

    def const(self, x):
        return Sym.const(x) if self.sym else x

    def _arr(self, shape):
        if self.sym:
            out = np.empty(shape, dtype=object)
            return out
        return np.zeros(shape, dtype=complex)

    def _fin(self, a, real=False):
        if self.sym:
            return a.view(SymArray)
        return a.real.copy() if real else a

    def cvec(self, name, n):
        a = self._arr((n,))
        for i in range(n):
            a[i] = self.complex("%s%d" % (name, i))
        return self._fin(a)

    def rvec(self, name, n, **kw):
        a = self._arr((n,))
        for i in range(n):
            a[i] = self.real("%s%d" % (name, i), **kw)
        return self._fin(a, real=True)

    def cmat(self, name, n, m=None):
        m = n if m is None else m
        a = self._arr((n, m))
        for i in range(n):
            for j in range(m):
                a[i, j] = self.complex("%s%d_%d" % (name, i, j))
        return self._fin(a)

    def rmat(self, name, n, m=None):
        m = n if m is None else m
        a = self._arr((n, m))
        for i in range(n):
            for j in range(m):
                a[i, j] = self.real("%s%d_%d" % (name, i, j))
        return self._fin(a, real=True)

    def herm(self, name, n):
        a = self._arr((n, n))
        for i in range(n):
            a[i, i] = self.real("%s%d_%d" % (name, i, i)) + (Sym.const(0) if self.sym else 0.0)
            for j in range(i + 1, n):
                z = self.complex("%s%d_%d" % (name, i, j))
                a[i, j] = z
                a[j, i] = z.conjugate()
        return self._fin(a)

    def csymm(self, name, n):
        a = self._arr((n, n))
        for i in range(n):
            for j in range(i, n):
                z = self.complex("%s%d_%d" % (name, i, j))
                a[i, j] = z
                a[j, i] = z
        return self._fin(a)

    def rsymm(self, name, n):
        a = self._arr((n, n))
        for i in range(n):
            for j in range(i, n):
                z = self.real("%s%d_%d" % (name, i, j))
                a[i, j] = z
                a[j, i] = z
        return self._fin(a, real=True)

    def ctensor(self, name, shape):
        a = self._arr(shape)
        for idx in np.ndindex(*shape):
            a[idx] = self.complex(name + "_".join(str(i) for i in idx))
        return self._fin(a)

    # ------------------------------------------------------------------ assumptions
    def assume(self, cond, note=None):
        if self.sym:
            if isinstance(cond, (bool, np.bool_)):
                if not cond:
                    raise state.PathAbort("assumption is constant false")
                return
            self.run.assumptions.append(as_bool_term(cond))
        else:
            if not bool(cond):
                raise AssumptionFailed(note or "assumption")

    def note(self, s):
        if s not in self.notes:
            self.notes.append(s)

    # ------------------------------------------------------------------ random stubs
    def patch(self, obj, name, value):
        """monkeypatch for the duration of this harness run (both modes)"""
        self._patched.append((obj, name, getattr(obj, name, _ABSENT)))
        setattr(obj, name, value)

    def random_handler(self, name, fn):
        """np.random.<name> replacement; installed into the proxy (symbolic) or numpy itself (concrete)"""
        if self.sym:
            self.random.handlers[name] = fn
        else:
            self.patch(np.random, name, fn)

    def unpatch(self):
        for obj, name, v in reversed(self._patched):
            if v is _ABSENT:
                delattr(obj, name)
            else:
                setattr(obj, name, v)
        self._patched = []

    # ------------------------------------------------------------------ obligations
    def eq(self, label, lhs, rhs, scale=1.0):
        """lhs == rhs (arrays broadcast; complex compared part by part)"""
        self.reached += 1
        if self.sym:
            A = np.asarray(_strip(sarray(lhs, copy=False)))
            B = np.asarray(_strip(sarray(rhs, copy=False)))
            if A.shape != B.shape:
                try:
                    A, B = np.broadcast_arrays(A, B)
                except ValueError:
                    raise HarnessError("%s: shapes differ %r vs %r" % (label, A.shape, B.shape))
            goals = []
            for idx in np.ndindex(*A.shape) if A.ndim else [()]:
                a, b = tosym(A[idx]), tosym(B[idx])
                if a is NotImplemented or b is NotImplemented:
                    raise HarnessError("%s%s: non-numeric entry %r / %r" % (label, list(idx), A[idx], B[idx]))
                for part, qa, qb in (("re", a.re, b.re), ("im", a.im, b.im)):
                    gt = _qeq(qa, qb)
                    goals.append(("%s%s.%s" % (label, list(idx) if idx else "", part), gt, (qa, qb)))
            self._decide(label, goals)
        else:
            A, B = np.asarray(lhs, dtype=complex), np.asarray(rhs, dtype=complex)
            A, B = np.broadcast_arrays(A, B)
            self.conc[label] = ("eq", A.copy(), B.copy())

    def holds(self, label, cond):
        """a boolean condition must hold (cond: SymBool / bool)"""
        self.reached += 1
        if self.sym:
            if isinstance(cond, (bool, np.bool_)):
                gt = T.TRUE if cond else T.FALSE
            else:
                gt = as_bool_term(cond)
            self._decide(label, [(label, gt, None)])
        else:
            self.conc[label] = ("holds", bool(cond))

    def fact(self, label, ok, detail=""):
        """a concrete (non-symbolic) structural assertion evaluated by the harness itself on this path"""
        self.reached += 1
        ok = bool(ok)
        if self.sym:
            self.results.append({"goal": label, "verdict": "unsat" if ok else "sat", "trivial": True, "time_s": 0.0,
                                 "structural": True, "detail": detail})
            if not ok:
                self.results[-1]["finding"] = {"label": label, "env": self._default_env({}), "structural": True,
                                               "detail": detail}
        else:
            self.conc[label] = ("holds", ok)

    # ------------------------------------------------------------------ deciding
    def _decide(self, label, goals):
        run = self.run
        todo = []
        for name, gt, pair in goals:
            if gt is T.TRUE:
                # both sides are the same term DAG; "symbolic" marks the non-constant ones (two executions of real code on
                # symbolic inputs that produced the identical normal form)
                symbolic = pair is not None and pair[0].n.op != "const"
                self.results.append({"goal": name, "verdict": "unsat", "trivial": True, "time_s": 0.0, "symbolic": symbolic})
            else:
                todo.append((name, gt, pair))
        self.records.append((label, goals, list(run.pc)))
        if not todo or self.skip_solve:
            return
        ctx = run.context_terms()
        for (name, gt, pair) in todo:
            if label in self.stop_labels:
                self.results.append({"goal": name, "verdict": "skipped", "trivial": False, "time_s": 0.0})
                continue
            t0 = time.time()
            # cheap search for a counterexample before any solver is asked: evaluate both sides at a few random points
            # that satisfy the context.  A hit is only a candidate: it is replayed on the float code like a solver model.
            # (A goal that HOLDS is never discharged this way -- that remains the solver's verdict.)
            if pair is not None:
                hit = self._numeric_counterexample(ctx, pair)
                if hit is not None:
                    f = {"label": label, "goal": name, "env": hit, "found_by": "numeric evaluation of the symbolic terms"}
                    f.update(replay(self._hfn, self.params, hit, label, name, self.tier))
                    if f.get("reproduced"):
                        self.results.append({"goal": name, "verdict": "sat", "trivial": False, "time_s": round(time.time() - t0, 4),
                                             "solver": "none (candidate from term evaluation, confirmed by replay)", "finding": f,
                                             "hash": hashlib.sha1(name.encode()).hexdigest()[:12]})
                        self.stop_labels.add(label)
                        continue
            at = smt.Atomizer(ctx + [T.not_(gt)])
            if at.out[-1] is T.FALSE:
                self.results.append({"goal": name, "verdict": "unsat", "trivial": True, "time_s": 0.0})
                continue
            text, _, varnames = smt.print_smt(at.out + at.axioms, with_refs=True)
            h = hashlib.sha1(_canon(text).encode()).hexdigest()[:12]
            # stage 0: the negated goal alone (no context, no axioms).  unsat there is unsat everywhere (monotonicity)
            # and is what a plain polynomial identity gives in milliseconds
            verdict = "unknown"
            if len(at.out) > 1 or at.axioms:
                text0 = smt.print_smt([at.out[-1]])
                verdict, model, info = solver.check(text0, (), fast_ms=min(1500, FAST_MS), slow_s=0)
                if verdict != "unsat":
                    verdict = "unknown"
            if verdict != "unsat":
                verdict, model, info = solver.check(text, varnames, fast_ms=FAST_MS, slow_s=self.slow_s, tag="goal:" + name)
            dt = time.time() - t0
            rec = {"goal": name, "verdict": verdict, "trivial": False, "time_s": round(dt, 4), "solver": info["solver"],
                   "hash": h}
            if verdict == "unsat" and not self.twin_done and pair is not None:
                # vacuity twin: the same goal shifted by one must be refutable
                self.twin_done = True
                qa, qb = pair
                tw = _qeq(qa, Q(T.add(qb.n, qb.d), qb.d))
                at2 = smt.Atomizer(ctx + [T.not_(tw)])
                text2 = smt.print_smt(at2.out + at2.axioms)
                v2, _, _ = solver.check(text2, (), fast_ms=FAST_MS, slow_s=min(20, self.slow_s), tag="twin:" + name)
                self.twins.append({"goal": name + " (rhs+1)", "verdict": v2})
            if verdict == "sat":
                rec["finding"] = self._counterexample(label, name, gt, pair, at, model, ctx)
                if rec["finding"].get("reproduced"):
                    self.stop_labels.add(label)
                elif rec["finding"].get("within_tolerance"):
                    rec["verdict"] = "tolerance"
            self.results.append(rec)

    def _numeric_counterexample(self, ctx, pair, tries=4):
        qa, qb = pair
        rng = getattr(self, "_nrng", None)
        if rng is None:
            rng = self._nrng = random.Random(12345)
        for _ in range(tries):
            env = {}
            for name, (lo, hi, ls, hs, nz) in self.declared.items():
                a = lo if lo is not None else (hi - 3.0 if hi is not None else -1.5)
                b = hi if hi is not None else (lo + 3.0 if lo is not None else 1.5)
                env[name] = round(a + (b - a) * (0.05 + 0.9 * rng.random()), 3)
            try:
                vals = T.evaluate(ctx + [qa.n, qa.d, qb.n, qb.d], env)
            except (T.EvalError, ZeroDivisionError, OverflowError):
                continue
            if not all(vals[t.id] for t in ctx):
                continue
            try:
                d = vals[qa.n.id] / vals[qa.d.id] - vals[qb.n.id] / vals[qb.d.id]
                sc = max(1.0, abs(vals[qa.n.id] / vals[qa.d.id]), abs(vals[qb.n.id] / vals[qb.d.id]))
            except ZeroDivisionError:
                continue
            if math.isfinite(d) and abs(d) > 1e-6 * sc:
                return env
        return None

    def _default_env(self, env):
        out = {}
        for name, (lo, hi, ls, hs, nz) in self.declared.items():
            if name in env:
                out[name] = env[name]
            else:
                if lo is not None and hi is not None:
                    out[name] = (lo + hi) / 2.0
                elif lo is not None:
                    out[name] = lo + 0.5
                elif hi is not None:
                    out[name] = hi - 0.5
                else:
                    out[name] = 0.25
        return out

    def _counterexample(self, label, name, gt, pair, at, model, ctx):
        env = self._default_env(at.recover(model))
        f = {"label": label, "goal": name, "env": env}
        # robust version: ask for a model in which the two sides differ visibly and variables are moderate
        if pair is not None:
            qa, qb = pair
            try:
                vals = T.evaluate([qa.n, qa.d, qb.n, qb.d], env)
                d = vals[qa.n.id] / vals[qa.d.id] - vals[qb.n.id] / vals[qb.d.id]
            except Exception:
                d = 0.0
            f["sym_diff"] = d
            if abs(d) < 1e-4:
                diff = T.sub(T.mul(qa.n, qb.d), T.mul(qb.n, qa.d))
                den = T.mul(qa.d, qb.d)
                eps = T.const(Fraction(1, 1000))
                big = T.or_(T.lt(T.mul(eps, den, den), T.mul(diff, den)), T.lt(T.mul(diff, den), T.neg(T.mul(eps, den, den))))
                at2 = smt.Atomizer(ctx + [big])
                text, _, vn = smt.print_smt(at2.out + at2.axioms, with_refs=True)
                v2, m2, _ = solver.check(text, vn, fast_ms=FAST_MS, slow_s=min(30, self.slow_s))
                f["robust"] = v2
                if v2 == "sat":
                    env = self._default_env(at2.recover(m2))
                    f["env"] = env
                elif v2 == "unsat":
                    # the two sides differ by less than 1e-3 for every input on this path: the exact identity fails
                    # only inside a tolerance branch of the code (e.g. `abs(x) > 1e-13` taken literally)
                    f["within_tolerance"] = True
                    return f
        # replay on the unpatched code
        f.update(replay(self._hfn, self.params, env, label, name, self.tier))
        return f


_NID = re.compile(r"\bn\d+\b|t\d+")


def _canon(text):
    """query text with node ids renumbered in order of appearance (ids depend on hash-consing history)"""
    m = {}

    def r(mo):
        k = mo.group(0)
        if k not in m:
            m[k] = "k%d" % len(m)
        return m[k]
    return _NID.sub(r, text)


def _entry_index(goal_name, label):
    m = re.match(re.escape(label) + r"(\[[^\]]*\])?\.(re|im)$", goal_name)
    if not m:
        return None, None
    idx = tuple(json.loads(m.group(1))) if m.group(1) else ()
    return idx, m.group(2)


def run_concrete(hfn, params, env, tier="quick"):
    """run the harness on floats against the untouched code (no proxies).  returns the Gen"""
    g = Gen("conc", env=env, tier=tier, params=params)
    saved = state.CUR
    state.CUR = None
    inst = Installed.active
    if inst is not None:
        inst.suspend()
    try:
        hfn(g, **params)
    finally:
        g.unpatch()
        state.CUR = saved
        if inst is not None:
            inst.resume()
    return g


def replay(hfn, params, env, label, goal_name, tier="quick"):
    out = {"reproduced": False}
    try:
        g = run_concrete(hfn, params, env, tier)
    except AssumptionFailed as e:
        out["replay_error"] = "assumption failed in replay: %s" % e
        return out
    except Exception as e:
        out["replay_error"] = "%s: %s" % (type(e).__name__, e)
        out["replay_trace"] = traceback.format_exc()[-1500:]
        return out
    rec = g.conc.get(label)
    if rec is None:
        out["replay_error"] = "label %s not reached in concrete replay (different path)" % label
        return out
    if rec[0] == "holds":
        out["observed"] = rec[1]
        out["reproduced"] = (rec[1] is False)
        return out
    idx, part = _entry_index(goal_name, label)
    A, B = rec[1], rec[2]
    if idx is None:
        d = np.max(np.abs(A - B))
        a, b = None, None
    else:
        a, b = A[idx], B[idx]
        a, b = (a.real, b.real) if part == "re" else (a.imag, b.imag)
        d = abs(a - b)
    scale = max(1.0, float(np.max(np.abs(A))), float(np.max(np.abs(B))))
    out["lhs"] = None if a is None else float(a)
    out["rhs"] = None if b is None else float(b)
    out["diff"] = float(d)
    out["reproduced"] = bool(np.isfinite(d) and d > 1e-7 * scale)
    return out


# ------------------------------------------------------------------------------------------- exploration

def explore(hfn, params, modules, tier="quick", max_paths=2000, slow_s=60, validate_points=2, seed=0):
    """run the harness symbolically over all paths.  returns a JSON-able summary"""
    t_start = time.time()
    worklist = [[]]
    paths = []
    summary = {"paths": 0, "results": [], "twins": [], "stubs": set(), "notes": [], "aborted_paths": 0,
               "unknown_forks": 0, "fork_queries": 0, "errors": [], "validation": {"points": 0, "compared": 0},
               "reached": 0, "budget_exhausted": False, "assumptions_sat": None, "vars": 0}
    kept = []    # (pc terms, records) for validation
    declared = {}
    while worklist:
        if summary["paths"] >= max_paths:
            summary["budget_exhausted"] = True
            break
        prefix = worklist.pop()
        run = state.Run(prefix)
        rs = RandomStub()
        g = Gen("sym", run=run, tier=tier, slow_s=slow_s, params=params)
        g.random = rs
        g._hfn = hfn
        state.CUR = run
        aborted = False
        try:
            with Installed(modules, random_stub=rs):
                try:
                    hfn(g, **params)
                finally:
                    g.unpatch()
        except state.PathAbort:
            aborted = True
            summary["aborted_paths"] += 1
        except state.Realisation as e:
            summary["errors"].append("Realisation on path %r: %s\n%s" % (run.decisions, e, traceback.format_exc()[-1200:]))
        except Exception as e:
            summary["errors"].append("%s on path %r: %s\n%s" % (type(e).__name__, run.decisions, e, traceback.format_exc()[-1500:]))
        finally:
            state.CUR = None
        worklist.extend(run.new_prefixes)
        summary["paths"] += 1
        summary["unknown_forks"] += run.unknown_forks
        summary["fork_queries"] += run.fork_queries
        summary.setdefault("fork_hashes", set()).update(run.fork_hashes)
        summary["stubs"] |= run.stubs
        summary["reached"] += g.reached
        summary["vars"] = max(summary["vars"], len(g.declared))
        for n in g.notes:
            if n not in summary["notes"]:
                summary["notes"].append(n)
        for r in g.results:
            r["path"] = "".join("T" if d else "F" for d in run.decisions)
            summary["results"].append(r)
        summary["twins"] += g.twins
        if not aborted:
            kept.append((list(run.assumptions), list(run.pc), g.records, list(run.divs)))
            declared.update(g.declared)
        if summary["assumptions_sat"] in (None, "unknown") and not aborted:
            # vacuity (a): the assumptions of a complete path are satisfiable (the first path for which solver or witness
            # search says so; a path guarded by an equality such as `r == 0` cannot be hit by a random witness)
            at = smt.Atomizer(run.context_terms())
            v, _, _ = solver.check(smt.print_smt(at.out + at.axioms), (), fast_ms=FAST_MS, slow_s=0, tag="assumptions-sat")
            if v == "unknown":
                # a concrete witness is as good as the solver's sat: evaluate the context at random points
                rngw = random.Random(seed + 101)
                ctx_terms = run.context_terms()
                for _ in range(40):
                    envw = {}
                    for name, (lo, hi, ls, hs, nz) in g.declared.items():
                        a_ = lo if lo is not None else (hi - 3.0 if hi is not None else -1.5)
                        b_ = hi if hi is not None else (lo + 3.0 if lo is not None else 1.5)
                        envw[name] = a_ + (b_ - a_) * (0.05 + 0.9 * rngw.random())
                    try:
                        vals = T.evaluate(ctx_terms, envw)
                    except T.EvalError:
                        continue
                    if all(vals[t.id] for t in ctx_terms):
                        v = "sat"
                        break
            summary["assumptions_sat"] = v
    # ---------------- encoding validation: symbolic terms vs the untouched float code at random points
    rng = random.Random(seed * 7919 + 13)
    tries = 0
    while summary["validation"]["points"] < validate_points and tries < validate_points * 8 and kept:
        tries += 1
        env = {}
        for name, (lo, hi, ls, hs, nz) in declared.items():
            a = lo if lo is not None else (hi - 3.0 if hi is not None else -1.5)
            b = hi if hi is not None else (lo + 3.0 if lo is not None else 1.5)
            x = a + (b - a) * (0.05 + 0.9 * rng.random())
            env[name] = round(x, 3) if (round(x, 3) > a and round(x, 3) < b) else x
        try:
            gc = run_concrete(hfn, params, env, tier)
        except AssumptionFailed:
            continue
        except Exception as e:
            summary["errors"].append("concrete run failed during validation: %s: %s\n%s" % (type(e).__name__, e, traceback.format_exc()[-1500:]))
            break
        # find the symbolic path this point lies on
        matched = None
        for assumptions, pc, records, divs in kept:
            try:
                vals = T.evaluate(assumptions + pc, env)
            except T.EvalError:
                continue
            if all(vals[t.id] for t in assumptions + pc):
                matched = (records, divs)
                break
        if matched is None:
            continue
        records, divs = matched
        ok_point = True
        ncomp = 0
        for label, goals, _pc in records:
            rec = gc.conc.get(label)
            if rec is None:
                summary["errors"].append("validation: label %s reached symbolically but not concretely at %r" % (label, env))
                ok_point = False
                break
            if rec[0] != "eq":
                continue
            A, B = rec[1], rec[2]
            for name, gt, pair in goals:
                if pair is None:
                    continue
                idx, part = _entry_index(name, label)
                qa, qb = pair
                try:
                    vals = T.evaluate([qa.n, qa.d, qb.n, qb.d], env)
                    sa = vals[qa.n.id] / vals[qa.d.id]
                    sb = vals[qb.n.id] / vals[qb.d.id]
                except (T.EvalError, ZeroDivisionError):
                    continue
                if not (math.isfinite(sa) and math.isfinite(sb)):
                    continue        # numerator/denominator pairs overflowed the float range: not comparable here
                ca = A[idx].real if part == "re" else A[idx].imag
                cb = B[idx].real if part == "re" else B[idx].imag
                ncomp += 2
                sc = max(1.0, abs(ca), abs(cb))
                if not (abs(sa - ca) <= 1e-7 * sc and abs(sb - cb) <= 1e-7 * sc):
                    summary["errors"].append(
                        "encoding validation mismatch at %s: symbolic (%r, %r) vs float code (%r, %r) env=%r"
                        % (name, sa, sb, ca, cb, env))
                    ok_point = False
                    break
            if not ok_point:
                break
        if ok_point:
            summary["validation"]["points"] += 1
            summary["validation"]["compared"] += ncomp
        else:
            break
    summary["stubs"] = sorted(summary["stubs"])
    summary["fork_hashes"] = sorted(summary.get("fork_hashes", ()))
    summary["wall_s"] = round(time.time() - t_start, 3)
    return summary


# ------------------------------------------------------------------------------------------- check context

class Job:
    def __init__(self, name, hfn, params, modules, functions, bounds, max_paths, validate_points):
        self.name, self.hfn, self.params, self.modules = name, hfn, params, modules
        self.functions, self.bounds = functions, bounds
        self.max_paths, self.validate_points = max_paths, validate_points


_JOBS = []
_CTX = None


def _run_job(i):
    job = _JOBS[i]
    ctx = _CTX
    solver.STATS.update({"queries": 0, "fast": 0, "portfolio": 0, "time_s": 0.0, "by_solver": {}, "crosschecked": 0, "errors": 0, "slow": []})
    t0 = time.time()
    try:
        mods = job.modules() if callable(job.modules) else job.modules
        s = explore(job.hfn, job.params, mods, tier=ctx.tier, max_paths=job.max_paths, slow_s=ctx.slow_s,
                    validate_points=job.validate_points, seed=ctx.seed + i)
    except BaseException as e:      # noqa
        s = {"paths": 0, "results": [], "twins": [], "stubs": [], "notes": [], "aborted_paths": 0, "unknown_forks": 0,
             "fork_queries": 0, "errors": ["job crashed: %s: %s\n%s" % (type(e).__name__, e, traceback.format_exc()[-2000:])],
             "validation": {"points": 0, "compared": 0}, "reached": 0, "budget_exhausted": False,
             "assumptions_sat": None, "vars": 0, "wall_s": time.time() - t0}
    s["job"] = job.name
    s["solver_stats"] = dict(solver.STATS)
    solver.shutdown()
    return i, s


class Ctx:
    def __init__(self, prop, tier=None, seed=None):
        self.prop = prop
        self.tier = tier or os.environ.get("VERIF_TIER", "quick")
        self.seed = int(seed if seed is not None else os.environ.get("VERIF_SEED", "0"))
        self.slow_s = 60 if self.tier == "quick" else 600
        self.jobs = []
        self.assumptions = []
        self.outside = []
        self.t0 = time.time()

    @property
    def thorough(self):
        return self.tier == "thorough"

    def add(self, name, hfn, params=None, modules=(), functions=(), bounds=None, max_paths=None, validate_points=2):
        if max_paths is None:
            max_paths = 2000 if self.tier == "quick" else 50000
        self.jobs.append(Job(name, hfn, params or {}, modules, list(functions), bounds or {}, max_paths, validate_points))

    def execute(self, workers=None):
        global _JOBS, _CTX
        _JOBS, _CTX = self.jobs, self
        workers = workers or int(os.environ.get("VERIF_WORKERS", "16"))
        workers = max(1, min(workers, len(self.jobs)))
        out = [None] * len(self.jobs)
        if workers == 1:
            for i in range(len(self.jobs)):
                out[i] = _run_job(i)[1]
        else:
            mpctx = mp.get_context("fork")
            with mpctx.Pool(workers, maxtasksperchild=8) as pool:
                for i, s in pool.imap_unordered(_run_job, range(len(self.jobs)), chunksize=1):
                    out[i] = s
                    if os.environ.get("VERIF_PROGRESS"):
                        sys.stderr.write("[%6.1fs] %s: %d paths, %d goals, %.1fs, errors=%d\n" % (
                            time.time() - self.t0, self.jobs[i].name, s["paths"], len(s["results"]), s.get("wall_s", 0), len(s["errors"])))
        return out
