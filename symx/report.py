"""Aggregate job summaries into a verdict, known-finding handling, replay files and the evidence file."""
import hashlib
import json
import os
import re
import sys
import time

VERIF = os.path.dirname(os.path.dirname(os.path.abspath(__file__)))


def load_known():
    p = os.path.join(VERIF, "known_findings.json")
    if not os.path.exists(p):
        return []
    return json.load(open(p))


def finish(ctx, summaries, extra_coverage=None, extra_assumptions=(), xh=None):
    prop = ctx.prop
    known = [k for k in load_known() if k.get("property") == prop and k.get("status") == "known"]
    os.makedirs(os.path.join(VERIF, "evidence"), exist_ok=True)
    os.makedirs(os.path.join(VERIF, "replays"), exist_ok=True)
    n_goals = n_triv = n_unsat = n_sat = n_unknown = n_skipped = n_tol = 0
    hashes = set()
    solver_time = 0.0
    queries = 0
    paths = 0
    errors = []
    violations = []
    known_hits = {}
    nonrepro = []
    samples = []
    stubs = set()
    notes = []
    twins_ok = twins_bad = 0
    val_points = val_compared = 0
    by_solver = {}
    budget = []
    vac_bad = []
    functions = []
    bounds = {}
    per_job = []
    fork_q = 0
    fork_hashes = set()
    folded_symbolic = set()
    for job, s in zip(ctx.jobs, summaries):
        paths += s["paths"]
        fork_q += s.get("fork_queries", 0)
        fork_hashes.update(s.get("fork_hashes", ()))
        for e in s["errors"]:
            errors.append("[%s] %s" % (job.name, e))
        stubs |= set(s["stubs"])
        for n in s["notes"]:
            if n not in notes:
                notes.append(n)
        for f in job.functions:
            if f not in functions:
                functions.append(f)
        bounds[job.name] = job.bounds
        if s["budget_exhausted"]:
            budget.append(job.name)
        if s["assumptions_sat"] not in ("sat",) and s["paths"] > s["aborted_paths"]:
            vac_bad.append("%s: assumptions %s" % (job.name, s["assumptions_sat"]))
        if s["reached"] == 0 and not s["errors"]:
            vac_bad.append("%s: no assertion reached" % job.name)
        for tw in s["twins"]:
            if tw["verdict"] == "sat":
                twins_ok += 1
            else:
                twins_bad += 1
                vac_bad.append("%s: wrong-goal twin %s came back %s" % (job.name, tw["goal"], tw["verdict"]))
        val_points += s["validation"]["points"]
        val_compared += s["validation"]["compared"]
        st = s.get("solver_stats", {})
        solver_time += st.get("time_s", 0.0)
        queries += st.get("queries", 0)
        for k, v in st.get("by_solver", {}).items():
            by_solver[k] = by_solver.get(k, 0) + v
        jn = {"job": job.name, "paths": s["paths"], "goals": len(s["results"]), "wall_s": s.get("wall_s")}
        per_job.append(jn)
        for r in s["results"]:
            n_goals += 1
            if r.get("trivial") and r["verdict"] == "unsat":
                n_triv += 1
                if r.get("symbolic"):
                    folded_symbolic.add((job.name, r["goal"]))
                continue
            if r.get("hash"):
                hashes.add(r["hash"])
            v = r["verdict"]
            if v == "unsat":
                n_unsat += 1
                if len(samples) < 5 and not r.get("trivial"):
                    samples.append({"job": job.name, "goal": r["goal"], "path": r.get("path", ""), "verdict": "unsat",
                                    "solver": r.get("solver"), "time_s": r.get("time_s"), "bounds": job.bounds})
            elif v == "skipped":
                n_skipped += 1
            elif v == "tolerance":
                n_tol += 1
            elif v == "unknown":
                n_unknown += 1
                errors_tag = "[%s] inconclusive: %s" % (job.name, r["goal"])
                notes.append(errors_tag)
            elif v == "sat":
                n_sat += 1
                f = r.get("finding", {})
                key = "%s:%s" % (job.name, r["goal"])
                if f.get("structural") or f.get("reproduced"):
                    hit = None
                    for k in known:
                        if re.search(k["match"], key):
                            hit = k
                            break
                    if hit is not None:
                        known_hits.setdefault(hit["match"], [hit, 0])[1] += 1
                    else:
                        violations.append((job, r, key))
                else:
                    nonrepro.append((job, r, key))
    status = 0
    lines = []
    # CrossHair conditions (Engine X)
    xh_cov = []
    xh_status = 0
    xh_confirmed = 0
    for xr in (xh or []):
        xh_cov.append({k: v for k, v in xr.items() if k not in ("lines", "violations")})
        xh_confirmed += xr["confirmed"]
        n_goals += len([c for c in xr["conditions"] if not c.get("twin")])
        n_unsat += xr["confirmed"]
        for c in xr["conditions"]:
            if c["verdict"] == "confirmed" and not c.get("twin"):
                hashes.add("xh:" + c["condition"])
        lines += xr["lines"]
        xh_status = max(xh_status, xr["status"])
        for f, call, rep in xr["violations"]:
            key = "xh:%s:%s" % (f, call)
            hit = None
            for k in known:
                if re.search(k["match"], key):
                    hit = k
                    break
            if hit is not None:
                known_hits.setdefault(hit["match"], [hit, 0])[1] += 1
            else:
                n_sat += 1
                path = os.path.join(VERIF, "replays", "%s-xh-%s.json" % (prop, f))
                json.dump({"property": prop, "engine": "crosshair", "file": xr["file"], "condition": f, "call": call, "observed": rep},
                          open(path, "w"), indent=1)
                lines.append("VIOLATION property=%s replay=%s" % (prop, path))
                lines.append("  # %s -> %s" % (call, rep))
                xh_status = 1
    for m, (k, cnt) in known_hits.items():
        lines.append("KNOWN-FINDING: property=%s %s (%d obligations; key /%s/)" % (prop, k["what"], cnt, m))
    vio_files = []
    for n, (job, r, key) in enumerate(violations[:10]):
        path = os.path.join(VERIF, "replays", "%s-%d.json" % (prop, n))
        rep = {"property": prop, "harness": job.name, "params": _jsonable(job.params), "obligation": r["goal"],
               "functions": job.functions, "path": r.get("path"), "assignment": r["finding"].get("env"),
               "expected": r["finding"].get("rhs"), "observed": r["finding"].get("lhs"),
               "diff": r["finding"].get("diff"), "detail": r["finding"].get("detail"), "module": job.hfn.__module__,
               "function": job.hfn.__name__}
        json.dump(rep, open(path, "w"), indent=1, default=str)
        vio_files.append(path)
        lines.append("VIOLATION property=%s replay=%s" % (prop, path))
        lines.append("  # %s lhs=%r rhs=%r %s" % (key, r["finding"].get("lhs"), r["finding"].get("rhs"), r["finding"].get("detail", "")))
    if xh_status == 1:
        status = 1
    if violations:
        status = 1
        byjob = {}
        for job, r, key in violations:
            byjob[job.name] = byjob.get(job.name, 0) + 1
        lines.append("VIOLATING-JOBS: " + ", ".join("%s(%d)" % kv for kv in sorted(byjob.items())))
    harness_err = bool(errors) or bool(nonrepro) or bool(vac_bad)
    inconclusive = n_unknown > 0 or bool(budget)
    if status == 0:
        if harness_err or xh_status == 3:
            status = 3
        elif inconclusive or xh_status == 2:
            status = 2
    for job, r, key in nonrepro[:10]:
        lines.append("HARNESS-ERROR: counterexample for %s did not reproduce on the float code: %s" % (
            key, {k: v for k, v in r.get("finding", {}).items() if k not in ("env", "replay_trace")}))
    for e in errors[:10]:
        lines.append("HARNESS-ERROR: " + e[:3000])
    for v in vac_bad[:10]:
        lines.append("HARNESS-ERROR (vacuity): " + v)
    if budget:
        lines.append("INCONCLUSIVE: path budget exhausted in " + ", ".join(budget))
    if n_unknown:
        lines.append("INCONCLUSIVE: %d obligations undecided" % n_unknown)
    wall = time.time() - ctx.t0
    cov = {
        "evaluations": max(1, n_goals),
        "distinct_nontrivial": len(hashes) + len(fork_hashes) + len(folded_symbolic),
        "distinct_nontrivial_obligations_decided_by_a_solver": len(hashes), "distinct_path_feasibility_queries": len(fork_hashes),
        "distinct_symbolic_obligations_decided_by_normal_form": len(folded_symbolic),
        "rule": "one evaluation = one obligation (one real-valued equality or predicate produced by executing the real "
                "functions on symbolic inputs, on one explored path).  distinct_nontrivial = distinct cases in which something "
                "symbolic had to be decided: (a) obligations whose goal did not reduce to `true` by hash-consing and went to a "
                "solver, deduplicated by the hash of their SMT-LIB text; (b) path-feasibility queries (which branches of the real "
                "code exist), deduplicated likewise; (c) obligations between two NON-CONSTANT symbolic results of separate "
                "executions of real code whose term DAGs came out identical (decided by the hash-consed normal form, no solver "
                "needed), deduplicated by (job, obligation).  Obligations between constants or structural facts count in "
                "evaluations only",
        "samples": samples or [{"note": "no non-trivial obligation was discharged in this run"}],
        "obligations": n_goals, "discharged": n_triv + n_unsat + n_tol,
        "discharged_within_tolerance_1e-3_on_a_tolerance_branch": n_tol, "discharged_by_solver": n_unsat,
        "folded_trivially": n_triv, "sat": n_sat, "known_finding_obligations": sum(c for _, c in known_hits.values()),
        "skipped_after_first_violation_in_group": n_skipped,
        "inconclusive": n_unknown, "paths": paths, "fork_feasibility_queries": fork_q,
        "queries": queries, "solver_time_s": round(solver_time, 2), "solvers": by_solver,
        "functions_encoded": functions, "bounds": bounds, "stubs": sorted(stubs), "notes": notes[:40],
        "vacuity_witnesses": {"wrong_goal_twins_sat": twins_ok, "wrong_goal_twins_not_sat": twins_bad},
        "encoding_validation_points": val_points, "encoding_validation_values_compared": val_compared,
        "replayed_counterexamples": len(violations) + sum(c for _, c in known_hits.values()),
        "non_reproducing_models": len(nonrepro), "per_job": per_job,
        "exhaustive": False,
        "crosshair": xh_cov, "crosshair_conditions_confirmed_over_all_paths": xh_confirmed,
        "exit_status": status,
    }
    if extra_coverage:
        cov.update(extra_coverage)
    ev = {"property_id": prop, "tier": ctx.tier, "seed": ctx.seed, "level": "model_checking", "coverage": cov,
          "assumptions": list(ctx.assumptions) + list(extra_assumptions) + [
              "floats are read as reals (exact identities over R; rounding, overflow and tolerance outcomes are outside the claim)",
              "every symbolic division is by a non-zero quantity (denominators are asserted non-zero in each query)",
              "sizes (modes, cutoff, command counts) are the concrete bounds listed under coverage.bounds; nothing is claimed outside them",
          ] + ["outside the claim: " + o for o in ctx.outside],
          "wall_s": round(wall, 2), "violations": len(violations)}
    json.dump(ev, open(os.path.join(VERIF, "evidence", "%s.json" % prop), "w"), indent=1, default=str)
    for ln in lines:
        print(ln)
    print("%s tier=%s: %d obligations (%d folded, %d unsat, %d sat [%d known], %d unknown) on %d paths, %d solver queries, "
          "%.1fs solver, %.1fs wall, exit %d" % (prop, ctx.tier, n_goals, n_triv, n_unsat, n_sat,
                                                   sum(c for _, c in known_hits.values()), n_unknown, paths, queries,
                                                   solver_time, wall, status))
    sys.stdout.flush()
    return status


def _jsonable(x):
    try:
        json.dumps(x)
        return x
    except TypeError:
        return repr(x)
