"""Symbolic scalars that survive inside numpy object arrays.

Sym  : complex-capable scalar, real and imaginary parts are quotients (num, den) of division-free terms
SymBool : boolean term; bool() forks the path explorer
"""
from fractions import Fraction
import numbers
import numpy as _np

from . import term as T
from . import state
from .state import Realisation


class Q:
    """n/d with d a non-zero term (d is the constant 1 unless a symbolic division happened)"""
    __slots__ = ("n", "d")

    def __init__(self, n, d=T.ONE):
        if d.op == "const" and d is not T.ONE:
            n, d = T.scale(1 / d.val, n), T.ONE
        if n.op == "const" and n.val == 0:
            d = T.ONE
        self.n, self.d = n, d

    def is_const(self):
        return self.n.op == "const" and self.d is T.ONE

    def is_zero(self):
        return self.n is T.ZERO

    def term(self):
        return self.n if self.d is T.ONE else T.quot(self.n, self.d)


QZERO = Q(T.ZERO)
QONE = Q(T.ONE)


def qadd(a, b):
    if a.n is T.ZERO:
        return b
    if b.n is T.ZERO:
        return a
    if a.d is b.d:
        return Q(T.add(a.n, b.n), a.d)
    if a.d is T.ONE:
        return Q(T.add(T.mul(a.n, b.d), b.n), b.d)
    if b.d is T.ONE:
        return Q(T.add(a.n, T.mul(b.n, a.d)), a.d)
    return Q(T.add(T.mul(a.n, b.d), T.mul(b.n, a.d)), T.mul(a.d, b.d))


def qneg(a):
    return Q(T.neg(a.n), a.d)


def qsub(a, b):
    return qadd(a, qneg(b))


def qmul(a, b):
    if a.n is T.ZERO or b.n is T.ZERO:
        return QZERO
    n1, d1, n2, d2 = a.n, a.d, b.n, b.d
    if n1 is d2:
        n1, d2 = T.ONE, T.ONE
    if n2 is d1:
        n2, d1 = T.ONE, T.ONE
    return Q(T.mul(n1, n2), T.mul(d1, d2))


def qinv(a):
    if a.n.op == "const":
        if a.n.val == 0:
            raise ZeroDivisionError("division by constant zero")
        return Q(T.scale(1 / a.n.val, a.d), T.ONE)
    c0, core0 = T._split_scaled(a.n)
    if core0 is not None and core0.op == "sqrt" and core0.args[0].op == "const" and core0.args[1] is T.ONE:
        # 1/(c*sqrt(m)) = sqrt(m)/(c*m): keep denominators rational
        return Q(T.mul(T.scale(1 / (c0 * core0.args[0].val), core0), a.d), T.ONE)
    if state.CUR is not None:
        state.CUR.guard_div(a.n)
    # keep denominators sign-normalised? not needed: equalities are cross-multiplied, inequalities use d*d
    c, core = T._split_scaled(a.n)
    if core is not None and c != 1:
        return Q(T.scale(1 / c, a.d), core)
    return Q(a.d, a.n)


def _is_num(x):
    return isinstance(x, (numbers.Number, Fraction, _np.number, _np.bool_)) and not isinstance(x, (Sym,))


class SymBool:
    __slots__ = ("t",)

    def __init__(self, t):
        self.t = t

    def __bool__(self):
        if self.t is T.TRUE:
            return True
        if self.t is T.FALSE:
            return False
        return state.cur().decide(self.t)

    def __and__(self, o):
        if isinstance(o, _np.ndarray):
            return NotImplemented
        return SymBool(T.and_(self.t, as_bool_term(o)))
    __rand__ = __and__

    def __or__(self, o):
        if isinstance(o, _np.ndarray):
            return NotImplemented
        return SymBool(T.or_(self.t, as_bool_term(o)))
    __ror__ = __or__

    def __invert__(self):
        return SymBool(T.not_(self.t))

    def __repr__(self):
        return "SymBool(%r)" % (self.t,)

    def __hash__(self):
        return id(self)


def as_bool_term(x):
    if isinstance(x, SymBool):
        return x.t
    if isinstance(x, (bool, _np.bool_)):
        return T.TRUE if x else T.FALSE
    raise TypeError("not a boolean: %r" % (x,))


def mkbool(t):
    if t is T.TRUE:
        return True
    if t is T.FALSE:
        return False
    return SymBool(t)


class Sym:
    __slots__ = ("re", "im")

    def __init__(self, re, im=QZERO):
        self.re, self.im = re, im

    # ---- construction
    @staticmethod
    def const(x):
        if isinstance(x, Sym):
            return x
        if isinstance(x, (complex, _np.complexfloating)):
            return Sym(Q(T.const(x.real)), Q(T.const(x.imag)))
        if hasattr(x, "item") and not isinstance(x, (numbers.Number, Fraction)):
            return Sym.const(x.item())
        if isinstance(x, (bool, _np.bool_)):
            return Sym(Q(T.const(int(x))))
        return Sym(Q(T.const(x)))

    @staticmethod
    def var(name):
        return Sym(Q(T.var(name)))

    @staticmethod
    def of_term(t):
        return Sym(Q(t))

    # ---- inspection
    def is_real(self):
        return self.im.n is T.ZERO

    def is_const(self):
        return self.re.is_const() and self.im.is_const()

    def const_value(self):
        if not self.is_const():
            raise Realisation("symbolic value realised: %r" % (self,))
        r, i = self.re.n.val, self.im.n.val
        if i == 0:
            return r
        return complex(float(r), float(i))

    def rterm(self):
        """real term of a real-valued Sym"""
        if not self.is_real():
            raise TypeError("complex value used where a real one is needed")
        return self.re.term()

    def __repr__(self):
        if self.is_const():
            return "Sym(%s)" % (self.const_value(),)
        return "Sym(re#%d/%d, im#%d/%d)" % (self.re.n.id, self.re.d.id, self.im.n.id, self.im.d.id)

    def __hash__(self):
        if self.is_const():
            v = self.const_value()
            return hash(v)
        return id(self)

    # ---- realisation
    def __float__(self):
        v = self.const_value()
        if isinstance(v, complex):
            raise TypeError("complex to float")
        return float(v)

    def __int__(self):
        v = self.const_value()
        return int(v)

    def __index__(self):
        v = self.const_value()
        if isinstance(v, Fraction) and v.denominator == 1:
            return int(v)
        raise TypeError("non-integer used as index")

    def __complex__(self):
        v = self.const_value()
        return complex(v)

    def __bool__(self):
        r = (self != 0)
        return bool(r)

    # ---- arithmetic
    def __add__(self, o):
        if isinstance(o, _np.ndarray):
            return NotImplemented
        o = tosym(o)
        if o is NotImplemented:
            return o
        return Sym(qadd(self.re, o.re), qadd(self.im, o.im))
    __radd__ = __add__

    def __neg__(self):
        return Sym(qneg(self.re), qneg(self.im))

    def __pos__(self):
        return self

    def __sub__(self, o):
        if isinstance(o, _np.ndarray):
            return NotImplemented
        o = tosym(o)
        if o is NotImplemented:
            return o
        return Sym(qsub(self.re, o.re), qsub(self.im, o.im))

    def __rsub__(self, o):
        if isinstance(o, _np.ndarray):
            return NotImplemented
        o = tosym(o)
        if o is NotImplemented:
            return o
        return o - self

    def __mul__(self, o):
        if isinstance(o, _np.ndarray):
            return NotImplemented
        if isinstance(o, SymBool):
            return sym_ite(o, self, Sym.const(0))
        o = tosym(o)
        if o is NotImplemented:
            return o
        a, b, c, d = self.re, self.im, o.re, o.im
        if b.n is T.ZERO and d.n is T.ZERO:
            return Sym(qmul(a, c))
        if b.n is T.ZERO:
            return Sym(qmul(a, c), qmul(a, d))
        if d.n is T.ZERO:
            return Sym(qmul(a, c), qmul(b, c))
        return Sym(qsub(qmul(a, c), qmul(b, d)), qadd(qmul(a, d), qmul(b, c)))
    __rmul__ = __mul__

    def inverse(self):
        if self.im.n is T.ZERO:
            return Sym(qinv(self.re))
        if self.re.n is T.ZERO:
            return Sym(QZERO, qneg(qinv(self.im)))
        m = qadd(qmul(self.re, self.re), qmul(self.im, self.im))
        mi = qinv(m)
        return Sym(qmul(self.re, mi), qneg(qmul(self.im, mi)))

    def __truediv__(self, o):
        if isinstance(o, _np.ndarray):
            return NotImplemented
        o = tosym(o)
        if o is NotImplemented:
            return o
        return self * o.inverse()

    def __rtruediv__(self, o):
        if isinstance(o, _np.ndarray):
            return NotImplemented
        o = tosym(o)
        if o is NotImplemented:
            return o
        return o * self.inverse()

    def __pow__(self, e):
        if isinstance(e, _np.ndarray):
            return NotImplemented
        if isinstance(e, Sym):
            e = e.const_value()
        if isinstance(e, (float, _np.floating)) and float(e).is_integer():
            e = int(e)
        if isinstance(e, Fraction) and e.denominator == 1:
            e = int(e)
        if isinstance(e, (int, _np.integer)):
            e = int(e)
            if e < 0:
                return (self ** (-e)).inverse()
            res = Sym.const(1)
            base = self
            while e:
                if e & 1:
                    res = res * base
                e >>= 1
                if e:
                    base = base * base
            return res
        try:
            e2 = Fraction(e) * 2
        except (TypeError, ValueError):
            raise NotImplementedError("power %r" % (e,))
        if e2.denominator == 1:
            return self.sqrt() ** int(e2)
        raise NotImplementedError("power %r" % (e,))

    def __rpow__(self, b):
        # b ** self : only for constant exponents
        e = self.const_value()
        if isinstance(e, Fraction) and e.denominator == 1:
            return tosym(b) ** int(e)
        if isinstance(e, Fraction) and e == Fraction(1, 2):
            return tosym(b).sqrt()
        raise NotImplementedError("symbolic exponent")

    def __mod__(self, m):
        if isinstance(m, _np.ndarray):
            return NotImplemented
        m = tosym(m)
        if m is NotImplemented or not m.is_const():
            raise NotImplementedError("symbolic modulus")
        mv = m.const_value()
        if not self.is_real() or self.re.d is not T.ONE:
            raise NotImplementedError("modulus of a complex / rational-function value")
        k = T.floordiv(self.re.n, mv)
        return Sym(Q(T.sub(self.re.n, T.scale(mv, k))))

    def __abs__(self):
        if self.is_real():
            if self.re.d is T.ONE:
                return Sym(Q(T.absval(self.re.n)))
            return Sym(Q(T.absval(self.re.n), self.re.d if T.is_nonneg(self.re.d) else T.absval(self.re.d)))
        if self.re.d is self.im.d and self.re.d is not T.ONE:
            # |(a + ib)/d| = sqrt(a^2 + b^2)/|d|
            d = self.re.d
            num = T.sqrt(T.add(T.mul(self.re.n, self.re.n), T.mul(self.im.n, self.im.n)))
            return Sym(Q(num, d if T.is_nonneg(d) else T.absval(d)))
        return (self.real * self.real + self.imag * self.imag).sqrt()

    # ---- complex structure
    def conjugate(self):
        if self.im.n is T.ZERO:
            return self
        return Sym(self.re, qneg(self.im))
    conj = conjugate

    @property
    def real(self):
        return Sym(self.re) if self.im.n is not T.ZERO else self

    @property
    def imag(self):
        return Sym(self.im)

    # ---- comparisons
    def _cmp(self, o, op):
        o = tosym(o)
        if o is NotImplemented:
            return NotImplemented
        if not (self.is_real() and o.is_real()):
            raise TypeError("ordering comparison of complex values")
        # a.n/a.d  op  b.n/b.d  -> multiply by (a.d*b.d)^2 > 0
        a, b = self.re, o.re
        if a.d is T.ONE and b.d is T.ONE:
            l, r = a.n, b.n
        else:
            l = T.mul(a.n, a.d, b.d, b.d)
            r = T.mul(b.n, b.d, a.d, a.d)
        return mkbool({"le": T.le, "lt": T.lt}[op](l, r))

    def __lt__(self, o):
        return self._cmp(o, "lt")

    def __le__(self, o):
        return self._cmp(o, "le")

    def __gt__(self, o):
        o = tosym(o)
        return NotImplemented if o is NotImplemented else o._cmp(self, "lt")

    def __ge__(self, o):
        o = tosym(o)
        return NotImplemented if o is NotImplemented else o._cmp(self, "le")

    def __eq__(self, o):
        if isinstance(o, _np.ndarray):
            return NotImplemented
        o = tosym(o)
        if o is NotImplemented:
            return False
        return mkbool(T.and_(_qeq(self.re, o.re), _qeq(self.im, o.im)))

    def __ne__(self, o):
        if isinstance(o, _np.ndarray):
            return NotImplemented
        r = self.__eq__(o)
        if isinstance(r, SymBool):
            return ~r
        return not r

    # ---- numpy object-loop protocol
    def sqrt(self):
        if self.is_real():
            if self.re.is_const() and self.re.n.val < 0:
                return Sym(QZERO, Q(T.sqrt(T.neg(self.re.n))))
            return Sym(Q(T.sqrt(self.re.n, self.re.d)))
        raise NotImplementedError("sqrt of a symbolic complex value")

    def exp(self):
        mag = None
        if self.re.n is not T.ZERO:
            a = self.re.term()
            mag = Sym(Q(T.add(T.hyp("cosh", a), T.hyp("sinh", a))))
        if self.im.n is T.ZERO:
            return mag if mag is not None else Sym.const(1)
        b = self.im.term()
        ph = Sym(Q(T.trig("cos", b)), Q(T.trig("sin", b)))
        return ph if mag is None else mag * ph

    def cos(self):
        return Sym(Q(T.trig("cos", self.rterm())))

    def sin(self):
        return Sym(Q(T.trig("sin", self.rterm())))

    def tan(self):
        return self.sin() / self.cos()

    def cosh(self):
        return Sym(Q(T.hyp("cosh", self.rterm())))

    def sinh(self):
        return Sym(Q(T.hyp("sinh", self.rterm())))

    def tanh(self):
        return self.sinh() / self.cosh()

    def arctan2(self, x):
        x = tosym(x)
        if self.is_real() and x.is_real() and self.re.d is x.re.d and self.re.d is not T.ONE and T.is_nonneg(self.re.d):
            # atan2(a/d, b/d) = atan2(a, b) for d > 0
            return Sym(Q(T.atan2(self.re.n, x.re.n)))
        return Sym(Q(T.atan2(self.rterm(), x.rterm())))

    def arctan(self):
        if self.is_real() and self.re.d is not T.ONE and T.is_nonneg(self.re.d):
            return Sym(Q(T.atan_quot(self.re.n, self.re.d)))
        return Sym(Q(T.unary_atom("atan", self.rterm())))

    def arcsinh(self):
        return Sym(Q(T.unary_atom("asinh", self.rterm())))

    def arccosh(self):
        return Sym(Q(T.unary_atom("acosh", self.rterm())))

    def arccos(self):
        return Sym(Q(T.unary_atom("acos", self.rterm())))

    def arcsin(self):
        return Sym(Q(T.unary_atom("asin", self.rterm())))

    def log(self):
        if self.is_real():
            if self.re.is_const() and self.re.n.val < 0:
                # principal branch of a negative constant (numpy: log(-1+0j) = i pi)
                # (the float constant: angles within 1e-10 of a multiple of pi/24 are read back as exact multiples)
                return Sym(Q(T.unary_atom("log", T.neg(self.re.n))), Q(T.const(T.PI_FLOAT)))
            return Sym(Q(T.unary_atom("log", self.rterm())))
        # complex argument: log|z| + i arg z
        return Sym(abs(self).log().re, self.imag.arctan2(self.real).re)

    def angle(self):
        return self.imag.arctan2(self.real)

    def item(self, *a):
        return self

    def squeeze(self, *a, **k):
        return self

    def __round__(self, n=None):
        if state.CUR is not None:
            state.CUR.stubs.add("round(x, n) -> x")
        return self

    def rint(self):
        return self.__round__()


def _qeq(a, b):
    if a.d is b.d:
        return T.eq(a.n, b.n)
    return T.eq(T.mul(a.n, b.d), T.mul(b.n, a.d))


def tosym(x):
    if isinstance(x, Sym):
        return x
    if isinstance(x, (bool, _np.bool_)):
        return Sym.const(int(x))
    if isinstance(x, (numbers.Number, Fraction, _np.number)):
        return Sym.const(x)
    if isinstance(x, _np.ndarray) and x.ndim == 0:
        return tosym(x.item())
    return NotImplemented


def is_symbolic(x):
    return isinstance(x, Sym) and not x.is_const()


def sym_ite(c, a, b):
    """if-then-else on scalars"""
    if isinstance(c, (bool, _np.bool_)):
        return a if c else b
    ct = as_bool_term(c)
    a, b = tosym(a), tosym(b)

    def qite(x, y):
        if x.d is y.d:
            return Q(T.ite(ct, x.n, y.n), x.d)
        return Q(T.ite(ct, x.n, y.n), T.ite(ct, x.d, y.d))
    return Sym(qite(a.re, b.re), qite(a.im, b.im))
