"""Atomisation (transcendental atoms -> algebraic variables + axioms) and SMT-LIB2 printing."""
from fractions import Fraction
import math
from . import term as T


def _lcm(a, b):
    return a * b // math.gcd(a, b)


def _cmul(a, b):          # complex multiplication on (re, im) term pairs
    return (T.sub(T.mul(a[0], b[0]), T.mul(a[1], b[1])), T.add(T.mul(a[0], b[1]), T.mul(a[1], b[0])))


def _hmul(a, b):          # split-complex multiplication on (cosh, sinh) pairs
    return (T.add(T.mul(a[0], b[0]), T.mul(a[1], b[1])), T.add(T.mul(a[0], b[1]), T.mul(a[1], b[0])))


def _power(pair, m, mulf, inv):
    """pair^m for integer m (negative via inv)"""
    if m < 0:
        pair, m = inv(pair), -m
    res = (T.ONE, T.ZERO)
    base = pair
    while m:
        if m & 1:
            res = mulf(res, base)
        m >>= 1
        if m:
            base = mulf(base, base)
    return res


def _conj(p):
    return (p[0], T.neg(p[1]))


class Atomizer:
    """Rewrites a set of root terms into atom-free terms plus axioms.  One instance per query."""

    def __init__(self, roots):
        self.roots = list(roots)
        self.axioms = []
        self.rwmemo = {}
        self.trigL = {}     # base id -> L
        self.hypL = {}
        self.base_terms = {}
        self.trig_vars = {}  # base id -> (c, s)
        self.hyp_vars = {}
        self.sqrt_vars = {}
        self.plain_atom_vars = {}
        self._collect(self.roots)
        self.out = [self.rw(r) for r in self.roots]
        self._links()

    # -- pass 1: denominators per base
    def _collect(self, roots):
        for t in T.subterms(roots):
            if t.op in ("trig", "hyp"):
                kind, items, pim, c = t.val
                tab = self.trigL if t.op == "trig" else self.hypL
                byid = {a.id: a for a in t.args}
                for i, co in items:
                    tab[i] = _lcm(tab.get(i, 1), co.denominator)
                    self.base_terms[i] = byid[i]

    # -- constants cos(p*pi/q), sin(p*pi/q)
    def pi_const(self, pim):
        pim = Fraction(pim) % 2
        q = pim.denominator
        if q in (1, 2):
            k = int(pim * 2) % 4
            c, s = [(1, 0), (0, 1), (-1, 0), (0, -1)][k]
            return (T.const(c), T.const(s))
        base = {
            3: (T.const(Fraction(1, 2)), T.scale(Fraction(1, 2), T.sqrt(T.const(3)))),
            4: (T.scale(Fraction(1, 2), T.sqrt(T.const(2))), T.scale(Fraction(1, 2), T.sqrt(T.const(2)))),
            6: (T.scale(Fraction(1, 2), T.sqrt(T.const(3))), T.const(Fraction(1, 2))),
        }
        if q in base:
            b = base[q]
        elif q == 12:
            b = _cmul(base[3], _conj(base[4]))
        elif q == 8:
            r2 = T.sqrt(T.const(2))
            b = (T.scale(Fraction(1, 2), T.sqrt(T.add(T.const(2), r2))), T.scale(Fraction(1, 2), T.sqrt(T.sub(T.const(2), r2))))
        elif q == 24:
            b8 = self.pi_const(Fraction(1, 8))
            b = _cmul(b8, _conj(base[6])) if False else None
            # pi/24 = pi/8 - pi/12
            b12 = _cmul(base[3], _conj(base[4]))
            b = _cmul(b8, _conj(b12))
        else:
            raise NotImplementedError("cos/sin of pi*%s" % pim)
        p = int(pim * q)
        return _power(b, p, _cmul, _conj)

    # -- base variables
    def _name(self, base):
        return base.val if base.op == "var" else "t%d" % base.id

    def trig_base(self, base):
        v = self.trig_vars.get(base.id)
        if v is not None:
            return v
        L = self.trigL.get(base.id, 1)
        nm = self._name(base)
        c, s = T.var("c!%s!%d" % (nm, L)), T.var("s!%s!%d" % (nm, L))
        self.trig_vars[base.id] = (c, s)
        self.axioms.append(T.eq(T.add(T.mul(c, c), T.mul(s, s)), T.ONE))
        full = _power((c, s), L, _cmul, _conj)
        if base.op == "atan2":
            y, x = self.rw(base.args[0]), self.rw(base.args[1])
            # the modulus is the same atom as sqrt(x^2+y^2) built by abs() on the same complex number
            y0, x0 = base.args
            rho = self.rw(T.sqrt(T.add(T.mul(x0, x0), T.mul(y0, y0))))
            self.axioms += [T.eq(T.mul(full[0], rho), x), T.eq(T.mul(full[1], rho), y),
                            T.implies(T.eq(rho, T.ZERO), T.and_(T.eq(c, T.ONE), T.eq(s, T.ZERO)))]
            if L >= 2:
                cl = self.rw(self.pi_const(Fraction(1, L))[0])
                self.axioms.append(T.or_(T.lt(cl, c), T.and_(T.eq(c, cl), T.lt(T.ZERO, s))))
            else:
                # angle in (-pi, pi]: nothing to add; (c,s) determined when rho>0
                pass
        elif base.op == "atan":
            x = self.rw(base.args[0])
            if len(base.args) == 2:
                dd = self.rw(base.args[1])
                self.axioms += [T.lt(T.ZERO, full[0]), T.eq(T.mul(full[1], dd), T.mul(x, full[0]))]
            else:
                self.axioms += [T.lt(T.ZERO, full[0]), T.eq(full[1], T.mul(x, full[0]))]
            cl = self.rw(self.pi_const(Fraction(1, 2 * L))[0])
            self.axioms.append(T.lt(cl, c))
        elif base.op == "acos":
            x = self.rw(base.args[0])
            self.axioms.append(T.eq(full[0], x))
            cl = self.rw(self.pi_const(Fraction(1, L))[0]) if L >= 2 else None
            self.axioms.append(T.le(T.ZERO, s))
            if cl is not None:
                self.axioms.append(T.le(cl, c))
        elif base.op == "asin":
            x = self.rw(base.args[0])
            self.axioms.append(T.eq(full[1], x))
            cl = self.rw(self.pi_const(Fraction(1, 2 * L))[0])
            self.axioms.append(T.le(cl, c))
        return (c, s)

    def hyp_base(self, base):
        v = self.hyp_vars.get(base.id)
        if v is not None:
            return v
        L = self.hypL.get(base.id, 1)
        nm = self._name(base)
        ch, sh = T.var("ch!%s!%d" % (nm, L)), T.var("sh!%s!%d" % (nm, L))
        self.hyp_vars[base.id] = (ch, sh)
        self.axioms += [T.eq(T.sub(T.mul(ch, ch), T.mul(sh, sh)), T.ONE), T.le(T.ONE, ch)]
        full = _power((ch, sh), L, _hmul, _conj)
        if base.op == "asinh":
            self.axioms.append(T.eq(full[1], self.rw(base.args[0])))
        elif base.op == "acosh":
            self.axioms += [T.eq(full[0], self.rw(base.args[0])), T.le(T.ZERO, sh)]
        elif base.op == "log":
            self.axioms.append(T.eq(T.add(full[0], full[1]), self.rw(base.args[0])))
        elif base.op == "const":
            # opaque numeric constant: keep the sign information
            self.axioms.append(T.lt(T.ZERO, sh) if base.val > 0 else T.lt(sh, T.ZERO))
        return (ch, sh)

    # -- rewriting
    def rw(self, t):
        r = self.rwmemo.get(t.id)
        if r is not None:
            return r
        # iterative post-order (no recursion depth problems on long chains).  The bases of trig/hyp atoms are not
        # visited here: they are rewritten on demand by trig_base/hyp_base, so that an angle that is only ever used
        # inside cos/sin does not get a "plain real" variable with its own axioms
        stack = [(t, False)]
        while stack:
            u, done = stack.pop()
            if u.id in self.rwmemo:
                continue
            if done:
                self.rwmemo[u.id] = self._rw1(u)
                continue
            stack.append((u, True))
            if u.op in ("trig", "hyp"):
                continue
            for a in u.args:
                if a.id not in self.rwmemo:
                    stack.append((a, False))
        return self.rwmemo[t.id]

    def _rw1(self, t):
        op = t.op
        if op in ("const", "bconst", "var"):
            return t
        if op in ("trig", "hyp"):
            kind, items, pim, c = t.val
            byid = {a.id: a for a in t.args}
            if op == "trig":
                acc = self.pi_const(pim)
                acc = (self.rw(acc[0]), self.rw(acc[1]))
                for i, co in items:
                    if i not in self.trigL:     # atom created after collection (e.g. by pi_const): extend
                        self.trigL[i] = co.denominator
                    L = self.trigL[i]
                    m = co * L
                    assert m.denominator == 1, (co, L)
                    acc = _cmul(acc, _power(self.trig_base(byid[i]), int(m), _cmul, _conj))
                return acc[0] if kind == "cos" else acc[1]
            acc = (T.ONE, T.ZERO)
            for i, co in items:
                if i not in self.hypL:
                    self.hypL[i] = co.denominator
                L = self.hypL[i]
                m = co * L
                assert m.denominator == 1, (co, L)
                acc = _hmul(acc, _power(self.hyp_base(byid[i]), int(m), _hmul, _conj))
            return acc[0] if kind == "cosh" else acc[1]
        a = [self.rwmemo[x.id] if x.id in self.rwmemo else self.rw(x) for x in t.args]
        if op == "add":
            c0, coefs = t.val
            return T.add(T.const(c0), *[T.scale(c, x) for c, x in zip(coefs, a)])
        if op == "mul":
            return T.mul(*[T.powi(x, e) for e, x in zip(t.val, a)])
        if op == "sqrt":
            q = self.sqrt_vars.get(t.id)
            if q is None:
                q = T.var("q!t%d" % t.id)
                self.sqrt_vars[t.id] = q
                self.axioms += [T.le(T.ZERO, q), T.eq(T.mul(q, q, a[1]), a[0])]
                if a[0].op == "const" and a[1].op == "const" and a[0].val != 0:
                    self.axioms.append(T.lt(T.ZERO, q))
            return q
        if op == "floordiv":
            k = self.sqrt_vars.get(t.id)
            if k is None:
                ki = T.var("k!t%d" % t.id, "Int")
                k = T._mk("toreal", (ki,), None, "Real")
                self.sqrt_vars[t.id] = k
                m = T.const(t.val)
                self.axioms += [T.le(T.mul(m, k), a[0]), T.lt(a[0], T.add(T.mul(m, k), m))]
            return k
        if op == "quot":
            w = self.sqrt_vars.get(t.id)
            if w is None:
                w = T.var("w!t%d" % t.id)
                self.sqrt_vars[t.id] = w
                self.axioms += [T.eq(T.mul(w, a[1]), a[0]), T.not_(T.eq(a[1], T.ZERO))]
            return w
        if op in ("atan2", "atan", "asinh", "acosh", "acos", "asin", "log"):
            # used as a plain real number (not inside cos/sin/cosh/sinh)
            v = self.plain_atom_vars.get(t.id)
            if v is None:
                v = T.var("A!t%d" % t.id)
                self.plain_atom_vars[t.id] = v
                if op == "atan2":
                    y, x = a
                    self.axioms += [T.lt(T.neg(T.PI), v), T.le(v, T.PI),
                                    T.eq(T.eq(v, T.ZERO), T.and_(T.eq(y, T.ZERO), T.le(T.ZERO, x))),
                                    T.eq(T.lt(T.ZERO, v), T.or_(T.lt(T.ZERO, y), T.and_(T.eq(y, T.ZERO), T.lt(x, T.ZERO))))]
                elif op in ("atan", "asinh", "asin"):
                    x = a[0] if len(a) == 1 else T.mul(a[0], a[1])      # sign(n/d) = sign(n*d)
                    self.axioms += [T.eq(T.eq(v, T.ZERO), T.eq(x, T.ZERO)), T.eq(T.lt(T.ZERO, v), T.lt(T.ZERO, x))]
                    if op in ("atan", "asin"):
                        h = T.scale(Fraction(1, 2), T.PI)
                        self.axioms += [T.le(T.neg(h), v), T.le(v, h)]
                elif op == "acosh":
                    self.axioms += [T.le(T.ZERO, v), T.eq(T.eq(v, T.ZERO), T.eq(a[0], T.ONE))]
                elif op == "acos":
                    self.axioms += [T.le(T.ZERO, v), T.le(v, T.PI), T.eq(T.eq(v, T.ZERO), T.eq(a[0], T.ONE))]
                elif op == "log":
                    self.axioms += [T.eq(T.eq(v, T.ZERO), T.eq(a[0], T.ONE)), T.eq(T.lt(T.ZERO, v), T.lt(T.ONE, a[0]))]
            return v
        if op == "eq":
            return T.eq(*a)
        if op == "le":
            return T.le(*a)
        if op == "lt":
            return T.lt(*a)
        if op == "not":
            return T.not_(a[0])
        if op == "and":
            return T.and_(*a)
        if op == "or":
            return T.or_(*a)
        if op == "ite":
            return T.ite(*a)
        if op in ("toreal", "floor"):
            return T._mk(op, tuple(a), t.val, t.sort)
        raise NotImplementedError(op)

    def _congruence(self):
        """functional consistency for atoms: equal arguments, equal values.
        * two variables: only if both also occur as plain reals (a path condition may equate them)
        * variable vs algebraic (polynomial) base: only if the variable occurs plain
        * two algebraic bases: always (compared as polynomials; quotients by cross-multiplication)
        * two inverse-function bases (atan, atan2, asinh, ...) of the same kind: compared through their ARGUMENTS
        * inverse-function base vs anything else: only if it already occurs as a plain real"""
        fv = {v.id for v in T.free_vars(self.out + self.axioms)}
        inv_ops = ("atan2", "atan", "asinh", "acosh", "acos", "asin", "log")
        for tab, Ls in ((self.trig_vars, self.trigL), (self.hyp_vars, self.hypL)):
            ids = [i for i in tab if i in self.base_terms]
            for x in range(len(ids)):
                for y in range(x + 1, len(ids)):
                    i, j = ids[x], ids[y]
                    bi, bj = self.base_terms[i], self.base_terms[j]
                    Li, Lj = Ls.get(i, 1), Ls.get(j, 1)
                    if bi.op == "const" and bj.op == "const":
                        continue
                    vi, vj = bi.op == "var", bj.op == "var"
                    ii, ij = bi.op in inv_ops, bj.op in inv_ops
                    if vi and vj and not (bi.id in fv and bj.id in fv):
                        continue
                    if (vi and not vj and bi.id not in fv) or (vj and not vi and bj.id not in fv):
                        continue
                    if ii and ij:
                        if bi.op != bj.op or len(bi.args) != len(bj.args) or Li != Lj:
                            continue
                        if bi.op == "atan" and len(bi.args) == 2:
                            cond = T.eq(T.mul(self.rw(bi.args[0]), self.rw(bj.args[1])), T.mul(self.rw(bj.args[0]), self.rw(bi.args[1])))
                        else:
                            cond = T.and_(*[T.eq(self.rw(p), self.rw(q)) for p, q in zip(bi.args, bj.args)])
                        self.axioms.append(T.implies(cond, T.and_(T.eq(tab[i][0], tab[j][0]), T.eq(tab[i][1], tab[j][1]))))
                        continue
                    if (ii and bi.id not in self.plain_atom_vars) or (ij and bj.id not in self.plain_atom_vars):
                        continue
                    if bi.op == "quot" or bj.op == "quot":
                        ni, di = (bi.args if bi.op == "quot" else (bi, T.ONE))
                        nj, dj = (bj.args if bj.op == "quot" else (bj, T.ONE))
                        ri = T.scale(Lj, T.mul(self.rw(ni), self.rw(dj)))
                        rj = T.scale(Li, T.mul(self.rw(nj), self.rw(di)))
                        self.rw(bi), self.rw(bj)
                    else:
                        ri, rj = T.scale(Lj, self.rw(bi)), T.scale(Li, self.rw(bj))
                    self.axioms.append(T.implies(T.eq(ri, rj), T.and_(T.eq(tab[i][0], tab[j][0]), T.eq(tab[i][1], tab[j][1]))))
                    self.axioms.append(T.implies(T.eq(ri, T.neg(rj)),
                                                 T.and_(T.eq(tab[i][0], tab[j][0]), T.eq(tab[i][1], T.neg(tab[j][1])))))

    def _linear_relations(self):
        """a linear relation between angle (or hyperbolic-argument) variables that occurs in the query as a plain equality,
        k1 x1 + ... + kn xn = 0 (typically a path condition such as `a + b + c == 0` tested by a merge rule), implies
        the corresponding relation between their atoms: the product of the rotations is the identity.  (Two-variable
        relations are already covered by the congruence axioms.)"""
        import math as _m
        for t in T.subterms(self.out):
            if t.op != "eq" or t.args[0].sort != "Real":
                continue
            d = T.sub(t.args[0], t.args[1])
            if d.op != "add" or not all(a.op == "var" and a is not T.PI for a in d.args):
                continue
            c0 = d.val[0]
            pim0 = T._pi_multiple(c0) if c0 != 0 else Fraction(0)
            # homogeneous relations between 3+ variables; with a constant term that is a multiple of pi/24 (an angle
            # variable equal to a constant, `theta + pi == 0`) from one variable on, for angles only
            if (c0 == 0 and len(d.args) < 3) or (c0 != 0 and pim0 is None):
                continue
            for tab, Ls, mulf in ((self.trig_vars, self.trigL, _cmul), (self.hyp_vars, self.hypL, _hmul)):
                if not all(a.id in tab for a in d.args):
                    continue
                if c0 != 0 and tab is not self.trig_vars:
                    continue
                ks = [c * Ls.get(a.id, 1) for c, a in zip(d.val[1], d.args)]
                den = 1
                for k in ks:
                    den = den * k.denominator // _m.gcd(den, k.denominator)
                ks = [int(k * den) for k in ks]
                if max(abs(k) for k in ks) > 8:
                    continue
                acc = (T.ONE, T.ZERO)
                for k, a in zip(ks, d.args):
                    acc = mulf(acc, _power(tab[a.id], k, mulf, _conj))
                target = (T.ONE, T.ZERO)
                if c0 != 0:
                    # sum_i ks_i (x_i / L_i) = -den * c0
                    tc = self.pi_const(-pim0 * den)
                    target = (self.rw(tc[0]), self.rw(tc[1]))
                self.axioms.append(T.implies(t, T.and_(T.eq(acc[0], target[0]), T.eq(acc[1], target[1]))))

    def _links(self):
        """relate a base variable that also occurs as a plain real to its atoms; bound pi"""
        self._congruence()
        self._linear_relations()
        for _ in range(3):   # axioms may themselves introduce plain occurrences
            n_before = len(self.axioms)
            fv = {v.id for v in T.free_vars(self.out + self.axioms)}
            done = getattr(self, "_linked", set())
            for i, (c, s) in list(self.trig_vars.items()):
                b = self.base_terms.get(i)
                if b is not None and b.op == "var" and b.id in fv and ("t", i) not in done:
                    done.add(("t", i))
                    self.axioms.append(T.implies(T.eq(b, T.ZERO), T.and_(T.eq(c, T.ONE), T.eq(s, T.ZERO))))
                elif b is not None and b.op in ("mul", "add") and ("t", i) not in done and \
                        all(v.id in fv for v in T.free_vars([b])):
                    # polynomial base whose variables all occur as plain reals (e.g. in a path condition `angle == 0`)
                    done.add(("t", i))
                    self.axioms.append(T.implies(T.eq(self.rw(b), T.ZERO), T.and_(T.eq(c, T.ONE), T.eq(s, T.ZERO))))
            for i, (ch, sh) in list(self.hyp_vars.items()):
                b = self.base_terms.get(i)
                if b is not None and b.op == "var" and b.id in fv and ("h", i) not in done:
                    done.add(("h", i))
                    self.axioms += [T.eq(T.eq(b, T.ZERO), T.eq(sh, T.ZERO)), T.eq(T.lt(T.ZERO, b), T.lt(T.ZERO, sh))]
                elif b is not None and b.op in ("mul", "add") and ("h", i) not in done and \
                        all(v.id in fv for v in T.free_vars([b])):
                    done.add(("h", i))
                    rb = self.rw(b)
                    self.axioms += [T.eq(T.eq(rb, T.ZERO), T.eq(sh, T.ZERO)), T.eq(T.lt(T.ZERO, rb), T.lt(T.ZERO, sh))]
            if T.PI.id in fv and "pi" not in done:
                done.add("pi")
                self.axioms += [T.lt(T.const(Fraction(314159265, 100000000)), T.PI),
                                T.lt(T.PI, T.const(Fraction(314159266, 100000000)))]
            self._linked = done
            if len(self.axioms) == n_before:
                break

    # -- model -> base variable values
    def recover(self, model):
        """model: var name -> float (solver's values for the atom-free variables).  Returns var name -> float for
        the original base variables (angles from (c,s), hyperbolic arguments from sh)."""
        env = {}
        for k, v in model.items():
            if "!" not in k:
                env[k] = v
        # a variable used as an angle / hyperbolic argument takes the value its atoms encode (the goal depends on the
        # atoms; the plain occurrence is only tied to them at zero, by sign and by equalities)
        plain0 = dict(env)
        owned = set()

        def assign(name, value):
            # variables the model makes equal as plain reals (path conditions such as p1 == p2) stay equal
            old = plain0.get(name)
            env[name] = value
            owned.add(name)
            if old is not None:
                for other, ov in plain0.items():
                    if other != name and other not in owned and ov == old and isinstance(ov, float):
                        env[other] = value
        def scaled_var(b):
            # base k*x produced by term._tame: recover x = value / k
            if b is not None and b.op == "add" and len(b.args) == 1 and b.args[0].op == "var" and b.val[0] == 0:
                return b.args[0], b.val[1][0]
            return None, None
        for i, (c, s) in self.trig_vars.items():
            b = self.base_terms.get(i)
            xv, k = scaled_var(b)
            if xv is not None and c.val in model and s.val in model:
                assign(xv.val, self.trigL.get(i, 1) * math.atan2(model[s.val], model[c.val]) / float(k))
                continue
            if b is not None and b.op == "var" and c.val in model and s.val in model:
                L = self.trigL.get(i, 1)
                ang = L * math.atan2(model[s.val], model[c.val])
                plain = plain0.get(b.val)
                if abs(ang) < 1e-12 and plain is not None and abs(plain) > 1e-9:
                    ang = 2 * math.pi * L * (1 if plain > 0 else -1)
                assign(b.val, ang)
        for i, (ch, sh) in self.hyp_vars.items():
            b = self.base_terms.get(i)
            xv, k = scaled_var(b)
            if xv is not None and sh.val in model:
                assign(xv.val, self.hypL.get(i, 1) * math.asinh(model[sh.val]) / float(k))
                continue
            if b is not None and b.op == "var" and sh.val in model:
                assign(b.val, self.hypL.get(i, 1) * math.asinh(model[sh.val]))
        return env


# ---------------------------------------------------------------------------------------------- printing

def _num(fr):
    fr = Fraction(fr)
    if fr.denominator == 1:
        s = "%d.0" % abs(fr.numerator)
    else:
        s = "(/ %d.0 %d.0)" % (abs(fr.numerator), fr.denominator)
    return s if fr >= 0 else "(- %s)" % s


def _sym(name):
    return "|%s|" % name


def print_smt(asserts, logic=None, share_threshold=1, extra_roots=(), with_refs=False):
    """SMT-LIB2 text declaring all variables of `asserts` (atom-free Bool terms) and asserting them.
    Shared non-leaf nodes are emitted once as define-fun.  With with_refs=True returns (text, refs, varnames)
    where refs are the expressions naming `extra_roots` (declared/defined but not asserted)."""
    asserts = list(asserts)
    extra_roots = list(extra_roots)
    subs = T.subterms(asserts + extra_roots)
    uses = {}
    for t in subs:
        for a in t.args:
            uses[a.id] = uses.get(a.id, 0) + 1
    for t in extra_roots:
        uses[t.id] = uses.get(t.id, 0) + 2
    names = {}
    lines = []
    varnames = []
    if logic:
        lines.append("(set-logic %s)" % logic)
    for t in subs:
        if t.op == "var":
            lines.append("(declare-const %s %s)" % (_sym(t.val), t.sort))
            names[t.id] = _sym(t.val)
            varnames.append(t.val)

    def ref(t):
        return names[t.id]

    for t in subs:
        op = t.op
        if op == "var":
            continue
        if op == "const":
            names[t.id] = _num(t.val)
            continue
        if op == "bconst":
            names[t.id] = "true" if t.val else "false"
            continue
        a = [ref(x) for x in t.args]
        if op == "add":
            c0, coefs = t.val
            parts = []
            if c0 != 0:
                parts.append(_num(c0))
            for c, x in zip(coefs, a):
                if c == 1:
                    parts.append(x)
                elif c == -1:
                    parts.append("(- %s)" % x)
                else:
                    parts.append("(* %s %s)" % (_num(c), x))
            e = parts[0] if len(parts) == 1 else "(+ %s)" % " ".join(parts)
        elif op == "mul":
            parts = []
            for ex, x in zip(t.val, a):
                parts += [x] * ex
            e = "(* %s)" % " ".join(parts)
        elif op == "eq":
            e = "(= %s %s)" % tuple(a)
        elif op == "le":
            e = "(<= %s %s)" % tuple(a)
        elif op == "lt":
            e = "(< %s %s)" % tuple(a)
        elif op == "not":
            e = "(not %s)" % a[0]
        elif op in ("and", "or"):
            e = "(%s %s)" % (op, " ".join(a))
        elif op == "ite":
            e = "(ite %s %s %s)" % tuple(a)
        elif op == "toreal":
            e = "(to_real %s)" % a[0]
        elif op == "floor":
            e = "(to_int %s)" % a[0]
        else:
            raise NotImplementedError("atom %s reached the printer" % op)
        if uses.get(t.id, 0) > share_threshold or len(e) > 200:
            nm = "n%d" % t.id
            lines.append("(define-fun %s () %s %s)" % (nm, t.sort, e))
            names[t.id] = nm
        else:
            names[t.id] = e
    for t in asserts:
        lines.append("(assert %s)" % ref(t))
    text = "\n".join(lines)
    if with_refs:
        return text, [ref(t) for t in extra_roots], varnames
    return text
