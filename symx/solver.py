"""Solver back end: one persistent z3 5.x process (fast path) and a parallel portfolio of fresh
z3 4.8.12 / z3 5.1.0 / cvc5 processes for what the fast path does not settle.  SMT-LIB text only."""
import os
import re
import select
import shutil
import subprocess
import tempfile
import time

Z3NEW = shutil.which("z3-new") or "/usr/local/bin/z3-new"
Z3OLD = "/usr/bin/z3"
CVC5 = shutil.which("cvc5") or "/usr/bin/cvc5"

STATS = {"queries": 0, "fast": 0, "portfolio": 0, "time_s": 0.0, "by_solver": {}, "crosschecked": 0, "errors": 0}


class SolverError(Exception):
    pass


def _workdir():
    d = os.environ.get("VERIF_WORK")
    if not d:
        d = tempfile.mkdtemp(prefix="sfverif.")
        os.environ["VERIF_WORK"] = d
    os.makedirs(d, exist_ok=True)
    return d


_VAL = re.compile(r"\(\s*(\|[^|]*\||[^\s()]+)\s+(.*?)\)\s*(?=\(\s*(?:\|[^|]*\||[^\s()]+)\s|\)\s*$)", re.S)


def _parse_number(s):
    s = s.strip().replace("?", "")
    toks = s.replace("(", " ( ").replace(")", " ) ").split()
    pos = 0

    def parse():
        nonlocal pos
        t = toks[pos]
        pos += 1
        if t == "(":
            op = toks[pos]
            pos += 1
            args = []
            while toks[pos] != ")":
                args.append(parse())
            pos += 1
            if op == "-":
                return -args[0] if len(args) == 1 else args[0] - sum(args[1:])
            if op == "/":
                return args[0] / args[1]
            if op == "+":
                return sum(args)
            if op == "*":
                r = 1.0
                for a in args:
                    r *= a
                return r
            if op == "root-obj":
                raise ValueError("algebraic")
            raise ValueError(op)
        if t == "true":
            return True
        if t == "false":
            return False
        return float(t)

    return parse()


def parse_values(text):
    """parse the reply of (get-value (...)) into {name: float|bool}"""
    text = text.strip()
    out = {}
    # split top-level pairs
    depth = 0
    start = None
    inner = text[1:-1] if text.startswith("(") else text
    i = 0
    n = len(inner)
    while i < n:
        ch = inner[i]
        if ch == "|":
            j = inner.index("|", i + 1)
            i = j + 1
            continue
        if ch == "(":
            if depth == 0:
                start = i
            depth += 1
        elif ch == ")":
            depth -= 1
            if depth == 0 and start is not None:
                pair = inner[start + 1:i].strip()
                if pair.startswith("|"):
                    j = pair.index("|", 1)
                    name, rest = pair[1:j], pair[j + 1:]
                else:
                    name, rest = pair.split(None, 1)
                try:
                    out[name] = _parse_number(rest)
                except Exception:
                    pass
                start = None
        i += 1
    return out


class Z3Process:
    def __init__(self):
        self.p = None
        self.k = 0

    def start(self):
        self.p = subprocess.Popen([Z3NEW, "-in", "-smt2"], stdin=subprocess.PIPE, stdout=subprocess.PIPE,
                                  stderr=subprocess.STDOUT, bufsize=0)
        self.buf = b""
        self._send("(set-option :pp.decimal true)\n(set-option :pp.decimal_precision 17)\n")

    def _send(self, s):
        self.p.stdin.write(s.encode())
        self.p.stdin.flush()

    def kill(self):
        if self.p is not None:
            try:
                self.p.kill()
                self.p.wait()
            except Exception:
                pass
            self.p = None

    def query(self, text, timeout_ms, value_names=()):
        if self.p is None or self.p.poll() is not None:
            self.start()
        self.k += 1
        tag = "DONE%d" % self.k
        gv = ""
        if value_names:
            gv = "(get-value (%s))\n" % " ".join("|%s|" % v for v in value_names)
        # get-value after unsat gives an (error ...) line; we only read values when sat, so ask in two steps
        # (reset) rather than push/pop: at base level z3 runs its tactic pipeline (nlsat), not the incremental core
        self._send("(reset)\n(set-option :pp.decimal true)\n(set-option :pp.decimal_precision 17)\n"
                   "(set-option :timeout %d)\n%s\n(check-sat)\n(echo \"%s\")\n" % (timeout_ms, text, tag))
        lines = self._read_until(tag, timeout_ms / 1000.0 + 20)
        if lines is None:
            self.kill()
            return "unknown", {}, "hard-timeout"
        res = "unknown"
        err = None
        for ln in lines:
            s = ln.strip()
            if s in ("sat", "unsat", "unknown"):
                res = s
            if "(error" in s:
                err = s
        model = {}
        if err:
            res = "unknown"
        if res == "sat" and gv:
            self.k += 1
            tag2 = "DONE%d" % self.k
            self._send(gv + "(echo \"%s\")\n" % tag2)
            ml = self._read_until(tag2, 30)
            if ml is None:
                self.kill()
                return "sat", {}, "model-timeout"
            model = parse_values("\n".join(ml))
        return res, model, err

    # ---- sessions: a shared prelude (declarations, definitions, context) and many goals
    def open(self, prelude):
        if self.p is None or self.p.poll() is not None:
            self.start()
        self._send("(push)\n%s\n" % prelude)
        self.in_session = True

    def close(self):
        if self.p is not None and self.p.poll() is None:
            self._send("(pop)\n")
        self.in_session = False

    def ask(self, assert_text, timeout_ms, value_names=(), tactic=None):
        """one goal inside an open session.  returns (verdict, model, err); on a hard timeout the process is
        killed and the session is lost (verdict unknown, err 'hard-timeout')"""
        if self.p is None or self.p.poll() is not None:
            return "unknown", {}, "session-lost"
        self.k += 1
        tag = "DONE%d" % self.k
        cs = "(check-sat)" if not tactic else "(check-sat-using %s)" % tactic
        self._send("(push)\n(set-option :timeout %d)\n%s\n%s\n(echo \"%s\")\n" % (timeout_ms, assert_text, cs, tag))
        lines = self._read_until(tag, timeout_ms / 1000.0 + 15)
        if lines is None:
            self.kill()
            return "unknown", {}, "hard-timeout"
        res, err = "unknown", None
        for ln in lines:
            s = ln.strip()
            if s in ("sat", "unsat", "unknown"):
                res = s
            if "(error" in s:
                err = s
        if err:
            res = "unknown"
        model = {}
        if res == "sat" and value_names:
            self.k += 1
            tag2 = "DONE%d" % self.k
            self._send("(get-value (%s))\n(echo \"%s\")\n" % (" ".join("|%s|" % v for v in value_names), tag2))
            ml = self._read_until(tag2, 30)
            if ml is None:
                self.kill()
                return "sat", {}, "model-timeout"
            model = parse_values("\n".join(ml))
        self._send("(pop)\n")
        return res, model, err

    def _read_until(self, tag, tmo):
        out = []
        deadline = time.time() + tmo
        fd = self.p.stdout.fileno()
        while True:
            while b"\n" in self.buf:
                ln, self.buf = self.buf.split(b"\n", 1)
                ln = ln.decode(errors="replace")
                if ln.strip() == tag or ln.strip() == '"%s"' % tag:
                    return out
                out.append(ln)
            left = deadline - time.time()
            if left <= 0:
                return None
            r, _, _ = select.select([fd], [], [], left)
            if not r:
                return None
            chunk = os.read(fd, 65536)
            if not chunk:
                return None
            self.buf += chunk


_fast = None


def fast():
    global _fast
    if _fast is None:
        _fast = Z3Process()
    return _fast


def shutdown():
    global _fast
    if _fast is not None:
        _fast.kill()
        _fast = None


def _portfolio(text, timeout_s, value_names, solvers=("z3old", "z3new", "cvc5")):
    d = _workdir()
    stamp = "%d_%d" % (os.getpid(), int(time.time() * 1e6) % 10 ** 9)
    gv = ""
    if value_names:
        gv = "(get-value (%s))\n" % " ".join("|%s|" % v for v in value_names)
    procs = {}
    files = []
    logic = "QF_NIRA" if " Int)" in text else "QF_NRA"
    for name in solvers:
        path = os.path.join(d, "q_%s_%s.smt2" % (stamp, name))
        files.append(path)
        with open(path, "w") as f:
            if name == "cvc5":
                f.write("(set-option :produce-models true)\n(set-logic %s)\n" % logic)
            else:
                f.write("(set-option :pp.decimal true)\n(set-option :pp.decimal_precision 17)\n")
                if name == "z3old":
                    f.write("(set-logic %s)\n" % logic)
            f.write(text + "\n(check-sat)\n" + gv)
        if name == "z3old":
            cmd = [Z3OLD, "-smt2", "-T:%d" % int(timeout_s), path]
        elif name == "z3new":
            cmd = [Z3NEW, "-smt2", "-T:%d" % int(timeout_s), path]
        else:
            cmd = [CVC5, "--tlimit=%d" % int(timeout_s * 1000), path]
        try:
            procs[name] = subprocess.Popen(cmd, stdout=subprocess.PIPE, stderr=subprocess.STDOUT, text=True)
        except OSError:
            pass
    result = ("unknown", {}, None, None)
    deadline = time.time() + timeout_s + 10
    pending = dict(procs)
    answers = {}
    while pending and time.time() < deadline:
        for name, p in list(pending.items()):
            if p.poll() is not None:
                out = p.stdout.read()
                del pending[name]
                first = out.strip().split("\n", 1)[0].strip() if out.strip() else ""
                if first in ("sat", "unsat") and "(error" not in out.split("\n", 1)[0]:
                    rest = out.strip().split("\n", 1)[1] if "\n" in out.strip() else ""
                    if first == "sat" and "(error" in rest and name != "cvc5":
                        continue
                    answers[name] = (first, rest)
        if answers:
            break
        time.sleep(0.01)
    for p in pending.values():
        try:
            p.kill()
            p.wait()
        except Exception:
            pass
    for f in files:
        try:
            os.unlink(f)
        except OSError:
            pass
    if answers:
        # prefer a z3 answer for the model (decimal printing)
        order = [n for n in ("z3new", "z3old", "cvc5") if n in answers]
        verdicts = {answers[n][0] for n in order}
        if len(verdicts) > 1:
            raise SolverError("solvers disagree: %r" % {n: answers[n][0] for n in order})
        n = order[0]
        v, rest = answers[n]
        model = {}
        if v == "sat" and value_names:
            try:
                model = parse_values(rest)
            except Exception:
                model = {}
        result = (v, model, None, n)
    return result


def check(text, value_names=(), fast_ms=3000, slow_s=60, crosscheck=False, tag=""):
    """decide satisfiability of the asserted text.  returns (verdict, model, info)"""
    t0 = time.time()
    STATS["queries"] += 1
    verdict, model, err = fast().query(text, fast_ms, value_names)
    used = "z3new-inc"
    if verdict in ("sat", "unsat"):
        STATS["fast"] += 1
    else:
        if err and "hard-timeout" not in str(err) and "timeout" not in str(err) and "canceled" not in str(err):
            STATS["errors"] += 1
        if slow_s > 0:
            STATS["portfolio"] += 1
            verdict, model, err, used = _portfolio(text, slow_s, value_names)
            used = used or "portfolio"
    if crosscheck and verdict in ("sat", "unsat"):
        v2, _, _, u2 = _portfolio(text, min(30, max(5, slow_s)), (), solvers=("z3old", "cvc5"))
        if v2 in ("sat", "unsat"):
            STATS["crosschecked"] += 1
            if v2 != verdict:
                raise SolverError("cross-check disagreement: %s says %s, %s says %s" % (used, verdict, u2, v2))
    dt = time.time() - t0
    STATS["time_s"] += dt
    STATS["by_solver"][used] = STATS["by_solver"].get(used, 0) + 1
    if dt > 2.0:
        STATS.setdefault("slow", []).append((round(dt, 1), tag, used, verdict))
    return verdict, model, {"solver": used, "time_s": dt}
