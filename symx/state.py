"""Per-harness-run global state shared by scalars, proxies and the path explorer."""
from . import term as T
from . import smt, solver


import re as _re

_NID = _re.compile(r"\bn\d+\b|t\d+")


def _canon_ids(text):
    m = {}

    def r(mo):
        k = mo.group(0)
        if k not in m:
            m[k] = "k%d" % len(m)
        return m[k]
    return _NID.sub(r, text)


class Realisation(BaseException):
    """code under test tried to turn a symbolic value into a concrete number at a C boundary"""


class PathAbort(BaseException):
    """raised to abandon the current path (infeasible / budget)"""


class Run:
    def __init__(self, prefix=()):
        self.assumptions = []      # Bool terms: declared ranges + explicit assumptions
        self.divs = []             # denominators assumed non-zero
        self._divids = set()
        self.pc = []               # decisions taken on this path (Bool terms)
        self.prefix = list(prefix)
        self.pos = 0
        self.decisions = []        # realised choices
        self.new_prefixes = []     # alternatives discovered on this path
        self.stubs = set()
        self.vars = {}             # name -> (lo, hi, kind) declared base variables
        self.unknown_forks = 0
        self.fork_queries = 0
        self.fork_hashes = set()
        self.rng_log = []

    def guard_div(self, d):
        if d.op == "const":
            if d.val == 0:
                raise ZeroDivisionError("symbolic division by constant zero")
            return
        if d.id not in self._divids:
            self._divids.add(d.id)
            self.divs.append(d)

    def context_terms(self):
        return self.assumptions + [T.not_(T.eq(d, T.ZERO)) for d in self.divs] + self.pc

    def feasible(self, extra):
        roots = self.context_terms() + [extra]
        at = smt.Atomizer(roots)
        text = smt.print_smt(at.out + at.axioms)
        self.fork_queries += 1
        import hashlib
        self.fork_hashes.add("f" + hashlib.sha1(_canon_ids(text).encode()).hexdigest()[:12])
        v, _, _ = solver.check(text, (), fast_ms=2000, slow_s=10, tag="fork")
        return v

    def decide(self, cond):
        if cond is T.TRUE:
            return True
        if cond is T.FALSE:
            return False
        if self.pos < len(self.prefix):
            ch = self.prefix[self.pos]
        else:
            vt = self.feasible(cond)
            vf = self.feasible(T.not_(cond)) if vt != "unsat" else "sat"
            if vt == "unknown" or vf == "unknown":
                self.unknown_forks += 1
            ft, ff = vt != "unsat", vf != "unsat"
            if ft and ff:
                ch = True
                self.new_prefixes.append(self.decisions + [False])
            elif ft or ff:
                ch = ft          # forced; recorded all the same so that replaying a prefix stays aligned
            else:
                raise PathAbort("infeasible path")
            self.prefix.append(ch)
        self.pos += 1
        self.decisions.append(ch)
        self.pc.append(cond if ch else T.not_(cond))
        return ch


CUR = None          # the active Run (symbolic mode) or None (concrete mode)


def cur():
    if CUR is None:
        raise RuntimeError("no active symbolic run")
    return CUR
