"""numpy object arrays of Sym scalars, the shims numpy needs for them, and the module-namespace proxy for np."""
import itertools
import math as _math
import cmath as _cmath
import numbers
import types
from fractions import Fraction
import numpy as np

from . import term as T
from . import state
from .scalar import Sym, SymBool, tosym, sym_ite, as_bool_term, mkbool, Q


def _wrap_entry(x):
    if isinstance(x, (Sym, SymBool)):
        return x
    if isinstance(x, (bool, np.bool_)):
        return bool(x)
    if isinstance(x, (numbers.Number, Fraction, np.number)):
        return Sym.const(x)
    if isinstance(x, np.ndarray) and x.ndim == 0:
        return _wrap_entry(x.item())
    return x


_wrapv = np.frompyfunc(_wrap_entry, 1, 1)


def _stub(name):
    if state.CUR is not None:
        state.CUR.stubs.add(name)


class SymArray(np.ndarray):
    """object-dtype ndarray whose entries are Sym (or bool / SymBool for comparison results)"""

    def __array_finalize__(self, obj):
        pass

    # plain object arrays return zeros for .imag and self for .real
    @property
    def real(self):
        return _map(lambda z: z.real if isinstance(z, Sym) else z, self)

    @property
    def imag(self):
        return _map(lambda z: z.imag if isinstance(z, Sym) else Sym.const(0), self)

    def conj(self):
        return _map(lambda z: z.conjugate(), self)

    conjugate = conj

    def __array_ufunc__(self, ufunc, method, *inputs, out=None, **kwargs):
        kwargs.pop("dtype", None)
        kwargs.pop("casting", None)
        ins = []
        for x in inputs:
            if isinstance(x, SymArray):
                ins.append(x.view(np.ndarray))
            elif isinstance(x, np.ndarray) and x.dtype != object and ufunc.nin == 1:
                ins.append(sarray(x).view(np.ndarray))
            else:
                ins.append(x)
        name = ufunc.__name__
        if name in ("isnan", "isinf"):
            return np.zeros(np.shape(ins[0]), dtype=bool)
        if name == "isfinite":
            return np.ones(np.shape(ins[0]), dtype=bool)
        if name in ("rint", "floor", "ceil", "trunc") and method == "__call__":
            _stub("np.%s(x) -> x" % name)
            res = ins[0].copy()
        elif name == "sign" and method == "__call__":
            res = _map(_sign, ins[0])
        elif name in ("logical_and", "logical_or", "logical_not") and method == "__call__":
            f = {"logical_and": lambda a, b: _band(a, b), "logical_or": lambda a, b: _bor(a, b),
                 "logical_not": lambda a: _bnot(a)}[name]
            res = np.frompyfunc(f, ufunc.nin, 1)(*ins)
        elif name == "matmul" and method == "__call__":
            res = np.matmul(*ins, **kwargs)
        elif name in ("equal", "not_equal", "less", "less_equal", "greater", "greater_equal") and method == "__call__":
            # the default OO->? loop would call bool() on every SymBool (one fork per entry)
            res = ufunc(*[np.asarray(x, dtype=object) if not (isinstance(x, np.ndarray) and x.dtype == object) else x
                          for x in ins], dtype=object, **kwargs)
        elif name in ("logical_and", "logical_or") and method == "reduce":
            ax = kwargs.get("axis", 0)
            if ins[0].ndim <= 1 or ax is None:
                res = (_all if name == "logical_and" else _any)(ins[0])
            else:
                res = np.apply_along_axis(lambda v: (_all if name == "logical_and" else _any)(v), ax, ins[0])
        else:
            res = getattr(ufunc, method)(*ins, **kwargs)
        if isinstance(res, tuple):
            return tuple(_rewrap(r) for r in res)
        res = _rewrap(res)
        if out is not None:
            o = out[0] if isinstance(out, tuple) else out
            o[...] = res
            return o
        return res

    def __array_function__(self, func, types, args, kwargs):
        h = _FUNCS.get(func)
        if h is not None:
            return h(*args, **kwargs)
        a2 = _strip(args)
        k2 = _strip(kwargs)
        res = func(*a2, **k2)
        return _rewrap_deep(res)

    def __getitem__(self, key):
        # a mask computed from symbolic comparisons (object array of bool / SymBool): realise it entry by entry
        # (each SymBool forks the path explorer)
        if isinstance(key, np.ndarray) and key.dtype == object and key.size and \
                all(isinstance(k, (bool, np.bool_, SymBool)) for k in key.reshape(-1)):
            key = np.array([bool(k) for k in key.reshape(-1)], dtype=bool).reshape(key.shape)
        return super().__getitem__(key)

    def __bool__(self):
        if self.size == 1:
            return bool(self.reshape(-1).view(np.ndarray)[0])
        raise ValueError("truth value of an array with more than one element is ambiguous")

    def __float__(self):
        if self.size == 1:
            return float(self.reshape(-1).view(np.ndarray)[0])
        raise TypeError("only size-1 arrays can be converted")

    def __complex__(self):
        if self.size == 1:
            return complex(self.reshape(-1).view(np.ndarray)[0])
        raise TypeError("only size-1 arrays can be converted")

    def astype(self, dtype, *a, **k):
        if dtype in (float, complex, np.float64, np.complex128, np.complex64, np.float32, object, "complex", "float",
                     "complex128", "float64"):
            return self.copy()
        return np.asarray(self.view(np.ndarray)).astype(dtype, *a, **k)

    def round(self, *a, **k):
        _stub("round(x, n) -> x")
        return self.copy()

    def item(self, *a):
        return self.view(np.ndarray).item(*a)

    def tolist(self):
        return self.view(np.ndarray).tolist()


def _sign(x):
    x = tosym(x)
    t = x.rterm()
    return Sym(Q(T.ite(T.lt(T.ZERO, t), T.ONE, T.ite(T.lt(t, T.ZERO), T.const(-1), T.ZERO))))


def _band(a, b):
    if isinstance(a, (bool, np.bool_)) and isinstance(b, (bool, np.bool_)):
        return bool(a) and bool(b)
    return mkbool(T.and_(as_bool_term(a), as_bool_term(b)))


def _bor(a, b):
    if isinstance(a, (bool, np.bool_)) and isinstance(b, (bool, np.bool_)):
        return bool(a) or bool(b)
    return mkbool(T.or_(as_bool_term(a), as_bool_term(b)))


def _bnot(a):
    if isinstance(a, (bool, np.bool_)):
        return not a
    return mkbool(T.not_(as_bool_term(a)))


def _strip(x):
    if isinstance(x, SymArray):
        return x.view(np.ndarray)
    if isinstance(x, tuple):
        return tuple(_strip(y) for y in x)
    if isinstance(x, list):
        return [_strip(y) for y in x]
    if isinstance(x, dict):
        return {k: _strip(v) for k, v in x.items()}
    return x


def _rewrap(r):
    if isinstance(r, np.ndarray) and r.dtype == object:
        if r.ndim == 0:
            return _wrap_entry(r.item())
        r = _wrapv(r.view(np.ndarray))
        return r.view(SymArray)
    return r


def _rewrap_deep(r):
    if isinstance(r, tuple):
        return tuple(_rewrap_deep(x) for x in r)
    if isinstance(r, list):
        return [_rewrap_deep(x) for x in r]
    return _rewrap(r)


def _map(f, a):
    a = np.asarray(a).view(np.ndarray)
    if a.ndim == 0:
        return f(_wrap_entry(a.item()))
    out = np.empty(a.shape, dtype=object)
    flat_in = a.reshape(-1)
    flat_out = out.reshape(-1)
    for i in range(flat_in.shape[0]):
        flat_out[i] = f(_wrap_entry(flat_in[i]))
    return out.view(SymArray)


def has_sym(x):
    if isinstance(x, (Sym, SymBool, SymArray)):
        return True
    if isinstance(x, np.ndarray):
        return x.dtype == object and any(isinstance(e, (Sym, SymBool)) for e in x.reshape(-1))
    if isinstance(x, (list, tuple)):
        return any(has_sym(e) for e in x)
    return False


def sarray(x, copy=True):
    """array-like -> SymArray with every numeric entry a Sym"""
    if isinstance(x, SymArray):
        return x.copy() if copy else x
    a = np.array(x, dtype=object) if not isinstance(x, np.ndarray) else x.astype(object)
    if a.ndim == 0:
        a = a.reshape(())
        out = np.empty((), dtype=object)
        out[()] = _wrap_entry(a.item())
        return out.view(SymArray)
    return _wrapv(a).view(SymArray)


def szeros(shape, fill=0):
    out = np.empty(shape, dtype=object)
    c = Sym.const(fill)
    out.reshape(-1)[...] = c
    if out.ndim == 0:
        out[()] = c
    return out.view(SymArray)


# --------------------------------------------------------------------------- exact linear algebra

def _det_entries(m):
    """Laplace expansion with memoised minors and zero skipping; m: list of lists of Sym"""
    n = len(m)
    memo = {}

    def is_zero(z):
        return z.re.n is T.ZERO and z.im.n is T.ZERO

    def minor(rows_from, cols):
        # determinant of the submatrix rows [rows_from:], columns `cols` (tuple)
        if rows_from == n:
            return Sym.const(1)
        key = (rows_from, cols)
        r = memo.get(key)
        if r is not None:
            return r
        tot = Sym.const(0)
        for k, c in enumerate(cols):
            e = m[rows_from][c]
            if is_zero(e):
                continue
            sub = minor(rows_from + 1, cols[:k] + cols[k + 1:])
            term = e * sub
            tot = tot + term if k % 2 == 0 else tot - term
        memo[key] = tot
        return tot

    return minor(0, tuple(range(n)))


MAX_LINALG = 6
_OPAQUE = 0


def det(a):
    a = sarray(a, copy=False).view(np.ndarray)
    if a.ndim > 2:
        out = np.empty(a.shape[:-2], dtype=object)
        for idx in np.ndindex(*a.shape[:-2]):
            out[idx] = det(a[idx])
        return out.view(SymArray)
    n = a.shape[0]
    assert a.shape == (n, n)
    if n > MAX_LINALG:
        # too large to expand: an uninterpreted symbol (sound as long as nothing is concluded from its value)
        global _OPAQUE
        _OPAQUE += 1
        _stub("np.linalg.det of a symbolic matrix larger than %dx%d -> uninterpreted symbol" % (MAX_LINALG, MAX_LINALG))
        return Sym.var("det!opaque%d" % _OPAQUE)
    _stub("np.linalg.det -> exact cofactor expansion")
    return _det_entries([[a[i, j] for j in range(n)] for i in range(n)])


def inv(a):
    a = sarray(a, copy=False).view(np.ndarray)
    if a.ndim > 2:
        out = np.empty(a.shape, dtype=object)
        for idx in np.ndindex(*a.shape[:-2]):
            out[idx] = inv(a[idx])
        return out.view(SymArray)
    n = a.shape[0]
    assert a.shape == (n, n)
    if n > MAX_LINALG:
        raise NotImplementedError("symbolic inverse of size %d" % n)
    _stub("np.linalg.inv -> exact adjugate / determinant")
    rows = [[a[i, j] for j in range(n)] for i in range(n)]
    d = _det_entries(rows)
    dinv = d.inverse()
    out = np.empty((n, n), dtype=object)
    if n == 1:
        out[0, 0] = dinv
        return out.view(SymArray)
    for i in range(n):
        for j in range(n):
            sub = [[rows[r][c] for c in range(n) if c != i] for r in range(n) if r != j]
            cof = _det_entries(sub)
            if (i + j) % 2:
                cof = -cof
            out[i, j] = cof * dinv
    return out.view(SymArray)


def norm(a, ord=None, axis=None):
    a = sarray(a, copy=False)
    assert ord in (None, 2, "fro") and axis is None
    tot = Sym.const(0)
    for z in a.view(np.ndarray).reshape(-1):
        tot = tot + z.real * z.real + z.imag * z.imag
    return tot.sqrt()


def solve(a, b):
    return inv(a) @ sarray(b, copy=False)


# --------------------------------------------------------------------------- function shims

def _entry_eq(x, y):
    a, b = tosym(x), tosym(y)
    if a is NotImplemented or b is NotImplemented:
        # numpy itself raises on entries it cannot compare numerically (e.g. sympy expressions)
        raise TypeError("cannot determine truth value of a comparison with a non-numeric entry")
    return a == b


def allclose(a, b, rtol=None, atol=None, equal_nan=False):
    """tolerance comparison read as exact equality over the reals (one real-arithmetic predicate)"""
    _stub("np.allclose/isclose -> exact equality over the reals")
    a, b = np.broadcast_arrays(np.asarray(sarray(a, copy=False).view(np.ndarray)),
                               np.asarray(sarray(b, copy=False).view(np.ndarray)))
    ts = []
    for x, y in zip(a.reshape(-1), b.reshape(-1)):
        r = _entry_eq(x, y)
        if r is False:
            return False
        if r is True:
            continue
        ts.append(r.t)
    return mkbool(T.and_(*ts))


def isclose(a, b, rtol=None, atol=None, equal_nan=False):
    _stub("np.allclose/isclose -> exact equality over the reals")
    a, b = np.broadcast_arrays(np.asarray(sarray(a, copy=False).view(np.ndarray)),
                               np.asarray(sarray(b, copy=False).view(np.ndarray)))
    if a.ndim == 0:
        return _entry_eq(a.item(), b.item())
    out = np.empty(a.shape, dtype=object)
    for idx in np.ndindex(*a.shape):
        out[idx] = _entry_eq(a[idx], b[idx])
    return out.view(SymArray)


def _real(a):
    if isinstance(a, Sym):
        return a.real
    return sarray(a, copy=False).real


def _imag(a):
    if isinstance(a, Sym):
        return a.imag
    return sarray(a, copy=False).imag


def _real_if_close(a, tol=100):
    _stub("np.real_if_close -> real part when the imaginary part is identically zero as a term")
    if isinstance(a, Sym):
        return a.real if a.is_real() else a
    a = sarray(a, copy=False)
    if all(z.is_real() for z in a.view(np.ndarray).reshape(-1)):
        return a.real
    return a


def _angle(z):
    if isinstance(z, Sym):
        return z.angle()
    if isinstance(z, SymArray) or has_sym(z):
        return _map(lambda e: e.angle(), sarray(z, copy=False))
    z = np.asarray(z)
    if z.ndim == 0:
        return tosym(z.item()).angle()
    return _map(lambda e: e.angle(), sarray(z))


def _round(a, decimals=0, out=None):
    _stub("round(x, n) -> x")
    if isinstance(a, Sym):
        return a
    return sarray(a)


def _where(c, a=None, b=None):
    if a is None:
        return np.where(np.asarray(_concrete_bools(c)))
    cb = np.asarray(_strip(c)) if not isinstance(c, (bool, SymBool)) else c
    if isinstance(cb, np.ndarray) and cb.dtype != object:
        return _rewrap(np.where(cb, _strip(_obj(a)), _strip(_obj(b))))
    A, B = _obj(a), _obj(b)
    cb2, A2, B2 = np.broadcast_arrays(np.asarray(cb, dtype=object), np.asarray(_strip(A), dtype=object),
                                      np.asarray(_strip(B), dtype=object))
    out = np.empty(cb2.shape, dtype=object)
    for idx in np.ndindex(*cb2.shape):
        out[idx] = sym_ite(cb2[idx], A2[idx], B2[idx])
    if out.ndim == 0:
        return out.item()
    return out.view(SymArray)


def _concrete_bools(c):
    c = np.asarray(_strip(c))
    if c.dtype == object:
        return np.frompyfunc(bool, 1, 1)(c).astype(bool)
    return c


def _obj(a):
    if isinstance(a, SymArray):
        return a
    if isinstance(a, Sym):
        return a
    return sarray(a)


def _all(a, axis=None, **kw):
    a = np.asarray(_strip(a))
    if a.dtype != object:
        return np.all(a, axis=axis)
    assert axis is None
    ts = []
    for x in a.reshape(-1):
        if isinstance(x, SymBool):
            ts.append(x.t)
        elif isinstance(x, Sym):
            ts.append(as_bool_term_or_const(x != 0))
        elif not x:
            return False
    return mkbool(T.and_(*ts))


def _any(a, axis=None, **kw):
    a = np.asarray(_strip(a))
    if a.dtype != object:
        return np.any(a, axis=axis)
    assert axis is None
    ts = []
    for x in a.reshape(-1):
        if isinstance(x, SymBool):
            ts.append(x.t)
        elif isinstance(x, Sym):
            ts.append(as_bool_term_or_const(x != 0))
        elif x:
            return True
    return mkbool(T.or_(*ts))


def as_bool_term_or_const(r):
    if isinstance(r, SymBool):
        return r.t
    return T.TRUE if r else T.FALSE


def _iscomplexobj(a):
    if isinstance(a, Sym):
        return not a.is_real()
    if isinstance(a, np.ndarray) and a.dtype == object:
        return any(isinstance(z, Sym) and not z.is_real() for z in a.view(np.ndarray).reshape(-1))
    return np.iscomplexobj(a)


def _isrealobj(a):
    return not _iscomplexobj(a)


def _copy(a, *args, **kw):
    if isinstance(a, SymArray):
        return a.view(np.ndarray).copy().view(SymArray)
    return np.copy(a)


def _array_equal(a, b, equal_nan=False):
    a, b = np.asarray(_strip(_obj(a))), np.asarray(_strip(_obj(b)))
    if a.shape != b.shape:
        return False
    return allclose(a, b)


def _trace(a, *args, **kw):
    r = np.trace(np.asarray(_strip(a)), *args, **kw)
    return _rewrap(r) if isinstance(r, np.ndarray) else _wrap_entry(r)


def _matrix_power(a, n):
    a = sarray(a, copy=False)
    if n < 0:
        a, n = inv(a), -n
    res = sarray(np.identity(a.shape[-1], dtype=object))
    for _ in range(n):
        res = res @ a
    return res


def _sum(a, axis=None, **kw):
    kw.pop("dtype", None)
    r = np.add.reduce(np.asarray(_strip(_obj(a))), axis=axis, **{k: v for k, v in kw.items() if k in ("keepdims",)})
    return _rewrap(r) if isinstance(r, np.ndarray) else _wrap_entry(r)


def _isscalar(x):
    return isinstance(x, Sym) or np.isscalar(x)


def _ndim(x):
    if isinstance(x, (Sym, SymBool)):
        return 0
    return np.ndim(_strip(x))


def _shape(x):
    if isinstance(x, (Sym, SymBool)):
        return ()
    return np.shape(_strip(x))


def _iscomplex(a):
    if isinstance(a, Sym):
        return not a.is_real()
    return _map(lambda z: not z.is_real(), sarray(a, copy=False)).astype(bool)


_FUNCS = {
    np.linalg.inv: inv, np.linalg.det: det, np.linalg.norm: norm, np.linalg.solve: solve,
    np.linalg.matrix_power: _matrix_power,
    np.allclose: allclose, np.isclose: isclose, np.array_equal: _array_equal,
    np.real: _real, np.imag: _imag, np.real_if_close: _real_if_close, np.angle: _angle,
    np.round: _round, np.around: _round,
    np.where: _where, np.all: _all, np.any: _any,
    np.iscomplexobj: _iscomplexobj, np.isrealobj: _isrealobj, np.iscomplex: _iscomplex,
    np.copy: _copy, np.trace: _trace, np.sum: _sum, np.ndim: _ndim, np.shape: _shape,
}


# --------------------------------------------------------------------------- the np proxy

def _unary(name, method=None):
    method = method or name
    uf = getattr(np, name)

    def f(x, *args, **kw):
        kw.pop("dtype", None)
        if isinstance(x, Sym):
            return getattr(x, method)()
        if isinstance(x, SymArray):
            return uf(x, *args, **kw)
        if isinstance(x, (numbers.Number, Fraction, np.number)) and not isinstance(x, (bool, np.bool_)):
            return getattr(Sym.const(x), method)()
        if isinstance(x, np.ndarray) and x.dtype != object and x.dtype != bool:
            return uf(sarray(x), *args, **kw)
        if isinstance(x, (list, tuple)) or (isinstance(x, np.ndarray) and x.dtype == object):
            return uf(sarray(x), *args, **kw)
        return uf(x, *args, **kw)
    f.__name__ = name
    return f


def _p_abs(x, *a, **k):
    if isinstance(x, Sym):
        return abs(x)
    if isinstance(x, (list, tuple)) and has_sym(x):
        return np.abs(sarray(x))
    return np.abs(x)


def _p_conj(x, *a, **k):
    if isinstance(x, Sym):
        return x.conjugate()
    if isinstance(x, (list, tuple)) and has_sym(x):
        return np.conj(sarray(x))
    return np.conj(x)


def _p_arctan2(y, x, **kw):
    if isinstance(y, SymArray) or isinstance(x, SymArray):
        return np.arctan2(y, x)
    if isinstance(y, Sym) or isinstance(x, Sym):
        return tosym(y).arctan2(tosym(x))
    if np.ndim(y) == 0 and np.ndim(x) == 0:
        return tosym(y).arctan2(tosym(x))
    return np.arctan2(sarray(y), sarray(x))


_FLOAT_DTYPES = (None, float, complex, np.float64, np.complex128, np.float32, np.complex64, "complex", "float",
                 "complex128", "float64", object)


def _is_float_dtype(dt):
    if dt is _p_complex or dt is _p_float:
        return True
    try:
        return dt in _FLOAT_DTYPES or np.dtype(dt).kind in "fc"
    except TypeError:
        return False


def _nd(dtype):
    """the builtin names float / complex are shimmed inside modules under test: map the shims back to dtypes"""
    if dtype is _p_complex:
        return complex
    if dtype is _p_float:
        return float
    return dtype


def _p_zeros(shape, dtype=None, **kw):
    dtype = _nd(dtype)
    if not _is_float_dtype(dtype):
        return np.zeros(shape, dtype=dtype, **kw)
    return szeros(shape, 0)


def _p_ones(shape, dtype=None, **kw):
    dtype = _nd(dtype)
    if not _is_float_dtype(dtype):
        return np.ones(shape, dtype=dtype, **kw)
    return szeros(shape, 1)


def _p_empty(shape, dtype=None, **kw):
    dtype = _nd(dtype)
    if not _is_float_dtype(dtype):
        return np.empty(shape, dtype=dtype, **kw)
    return szeros(shape, 0)


def _p_full(shape, fill_value, dtype=None, **kw):
    dtype = _nd(dtype)
    if isinstance(fill_value, Sym) or _is_float_dtype(dtype):
        out = szeros(shape, 0)
        out[...] = tosym(fill_value)
        return out
    return np.full(shape, fill_value, dtype=dtype, **kw)


def _p_identity(n, dtype=None, **kw):
    dtype = _nd(dtype)
    if not _is_float_dtype(dtype):
        return np.identity(n, dtype=dtype)
    return sarray(np.identity(n, dtype=object))


def _p_eye(n, m=None, k=0, dtype=None, **kw):
    dtype = _nd(dtype)
    if not _is_float_dtype(dtype):
        return np.eye(n, m, k, dtype=dtype)
    return sarray(np.eye(n, m, k, dtype=object))


def _p_zeros_like(a, dtype=None, **kw):
    dtype = _nd(dtype)
    if isinstance(a, SymArray) or (dtype is not None and _is_float_dtype(dtype)):
        return szeros(np.shape(_strip(a)), 0)
    if isinstance(a, np.ndarray) and a.dtype.kind in "fc" and dtype is None:
        return szeros(a.shape, 0)
    return np.zeros_like(a, dtype=dtype, **kw)


def _p_ones_like(a, dtype=None, **kw):
    dtype = _nd(dtype)
    if isinstance(a, SymArray) or (dtype is not None and _is_float_dtype(dtype)):
        return szeros(np.shape(_strip(a)), 1)
    return np.ones_like(a, dtype=dtype, **kw)


def _p_array(x, dtype=None, copy=True, **kw):
    dtype = _nd(dtype)
    if isinstance(x, SymArray):
        return x.copy() if copy else x
    if isinstance(x, Sym) or has_sym(x):
        return sarray(x)
    if isinstance(x, np.ndarray) and x.dtype != object:
        if dtype is not None and not _is_float_dtype(dtype):
            return np.array(x, dtype=dtype, **kw)
        if x.dtype.kind in "fc":
            return sarray(x)
        return np.array(x, dtype=dtype, **kw)
    r = np.array(x, dtype=dtype, **kw)
    if r.dtype.kind in "fc":
        return sarray(r)
    return r


def _p_asarray(x, dtype=None, **kw):
    return _p_array(x, dtype=dtype, copy=False)


def _p_diag(v, k=0):
    if isinstance(v, (list, tuple)):
        v = _p_array(v)
    return np.diag(v, k)


def _p_isscalar(x):
    return _isscalar(x)


def _p_complex(x=0, y=None):
    if isinstance(x, Sym) or isinstance(y, Sym):
        r = tosym(x)
        if y is not None:
            r = r + 1j * tosym(y)
        return r
    return complex(x) if y is None else complex(x, y)


def _p_float(x=0.0):
    if isinstance(x, Sym):
        if not x.is_real():
            raise TypeError("float() of a complex symbolic value")
        return x
    if isinstance(x, SymArray):
        return x.reshape(-1)[0]
    return float(x)


class _LinalgProxy:
    inv = staticmethod(lambda a: inv(a) if _needs(a) else np.linalg.inv(a))
    det = staticmethod(lambda a: det(a) if _needs(a) else np.linalg.det(a))
    norm = staticmethod(lambda a, *r, **k: norm(a, *r, **k) if _needs(a) else np.linalg.norm(a, *r, **k))
    solve = staticmethod(lambda a, b: solve(a, b) if (_needs(a) or _needs(b)) else np.linalg.solve(a, b))
    matrix_power = staticmethod(lambda a, n: _matrix_power(a, n) if _needs(a) else np.linalg.matrix_power(a, n))

    def __getattr__(self, name):
        return getattr(np.linalg, name)


def _needs(a):
    return isinstance(a, (SymArray, Sym)) or has_sym(a)


class RandomStub:
    """np.random replacement.  By default every draw raises; harnesses install handlers."""

    def __init__(self):
        self.handlers = {}

    def __getattr__(self, name):
        h = self.handlers.get(name)
        if h is None:
            def missing(*a, **k):
                raise RuntimeError("np.random.%s called but no stub installed" % name)
            return missing
        return h


class NPProxy(types.ModuleType):
    def __init__(self, random_stub=None, float_pi=False):
        super().__init__("numpy_proxy")
        d = self.__dict__
        d["linalg"] = _LinalgProxy()
        d["random"] = random_stub if random_stub is not None else RandomStub()
        d["pi"] = np.pi if float_pi else Sym(Q(T.PI))
        for nm in ("sqrt", "cos", "sin", "tan", "exp", "cosh", "sinh", "tanh", "arctan", "arcsinh", "arccosh",
                   "arccos", "arcsin", "log"):
            d[nm] = _unary(nm)
        d["abs"] = _p_abs
        d["absolute"] = _p_abs
        d["conj"] = _p_conj
        d["conjugate"] = _p_conj
        d["arctan2"] = _p_arctan2
        d.update(zeros=_p_zeros, ones=_p_ones, empty=_p_empty, full=_p_full, identity=_p_identity, eye=_p_eye,
                 zeros_like=_p_zeros_like, ones_like=_p_ones_like, array=_p_array, asarray=_p_asarray,
                 diag=_p_diag, isscalar=_p_isscalar, allclose=lambda a, b, **k: allclose(a, b) if (_needs(a) or _needs(b)) else np.allclose(a, b, **k),
                 isclose=lambda a, b, **k: isclose(a, b) if (_needs(a) or _needs(b)) else np.isclose(a, b, **k),
                 real=lambda a: _real(a) if _needs(a) else np.real(a),
                 imag=lambda a: _imag(a) if _needs(a) else np.imag(a),
                 real_if_close=lambda a, **k: _real_if_close(a) if _needs(a) else np.real_if_close(a, **k),
                 angle=lambda z, **k: _angle(z),
                 round=lambda a, *r, **k: _round(a) if _needs(a) else np.round(a, *r, **k),
                 around=lambda a, *r, **k: _round(a) if _needs(a) else np.around(a, *r, **k),
                 where=lambda c, *r: _where(c, *r) if (_needs(c) or any(_needs(x) for x in r)) else np.where(c, *r),
                 all=lambda a, *r, **k: _all(a, *r, **k) if _needs(a) else np.all(a, *r, **k),
                 any=lambda a, *r, **k: _any(a, *r, **k) if _needs(a) else np.any(a, *r, **k),
                 iscomplexobj=_iscomplexobj, isrealobj=_isrealobj,
                 ndim=_ndim, shape=_shape,
                 complex128=_p_complex, float64=_p_float, complex_=_p_complex, float_=_p_float)

    def __getattr__(self, name):
        return getattr(np, name)


class MathProxy(types.ModuleType):
    """stand-in for `math` / `cmath` in modules under test"""

    def __init__(self, base):
        super().__init__("math_proxy")
        self._base = base
        d = self.__dict__
        d["pi"] = Sym(Q(T.PI))
        for nm, meth in (("sqrt", "sqrt"), ("cos", "cos"), ("sin", "sin"), ("tan", "tan"), ("exp", "exp"),
                         ("cosh", "cosh"), ("sinh", "sinh"), ("tanh", "tanh"), ("atan", "arctan"),
                         ("asinh", "arcsinh"), ("acosh", "arccosh"), ("acos", "arccos"), ("asin", "arcsin"),
                         ("log", "log")):
            d[nm] = (lambda m: (lambda x: getattr(tosym(x), m)()))(meth)
        d["atan2"] = lambda y, x: tosym(y).arctan2(tosym(x))
        d["fabs"] = lambda x: abs(tosym(x))
        d["phase"] = lambda z: tosym(z).angle()

    def __getattr__(self, name):
        return getattr(self._base, name)


FLOAT_PI_MODULES = {"strawberryfields.ops", "strawberryfields.decompositions", "strawberryfields.program_utils", "strawberryfields.compilers.compiler", "strawberryfields.program",
                    "strawberryfields.tdm.program", "strawberryfields.compilers.tdm"}


_ABSENT = object()


def _restore(m, k, v):
    if v is _ABSENT:
        if k in vars(m):
            delattr(m, k)
    else:
        setattr(m, k, v)


class Installed:
    """context manager replacing numpy (and math/cmath) in the namespaces of the given modules"""

    def __init__(self, modules, random_stub=None, extra=None):
        # modules whose name is listed in FLOAT_PI_MODULES mix np.pi with sympy expressions: they keep the float
        # (literals within 1e-10 of k*pi/24 are read back as exact multiples when used as angles)
        self.modules = modules
        self.proxy = NPProxy(random_stub)
        self.proxy_fp = NPProxy(self.proxy.random, float_pi=True)
        self.mathp = MathProxy(_math)
        self.cmathp = MathProxy(_cmath)
        self.saved = []
        self.extra = extra or {}

    active = None

    def clear_caches(self):
        for m in self.modules:
            for v in list(vars(m).values()):
                cc = getattr(v, "cache_clear", None)
                if callable(cc):
                    try:
                        cc()
                    except Exception:
                        pass

    def suspend(self):
        self.clear_caches()
        for m, k, v in reversed(self.saved):
            self._susp.append((m, k, getattr(m, k)))
            _restore(m, k, v)

    def resume(self):
        self.clear_caches()
        for m, k, v in reversed(self._susp):
            setattr(m, k, v)
        self._susp = []

    def __enter__(self):
        self._susp = []
        self._outer = Installed.active
        Installed.active = self
        self.clear_caches()
        byid = {}
        for nm, v in self.proxy.__dict__.items():
            orig = getattr(np, nm, None)
            if orig is not None and callable(orig):
                byid[id(orig)] = v
        for fn_name in ("inv", "det", "norm", "solve", "matrix_power"):
            byid[id(getattr(np.linalg, fn_name))] = getattr(self.proxy.linalg, fn_name)
        for m in self.modules:
            fp = m.__name__ in FLOAT_PI_MODULES
            for k, v in list(vars(m).items()):
                new = None
                if v is np:
                    new = self.proxy_fp if fp else self.proxy
                elif v is _math:
                    new = self.mathp
                elif v is _cmath:
                    new = self.cmathp
                elif v is np.random:
                    new = self.proxy.random
                elif v is np.linalg:
                    new = self.proxy.linalg
                elif v is np.pi and k == "pi" and not fp:
                    new = self.proxy.pi
                elif callable(v) and id(v) in byid and not isinstance(v, type):
                    new = byid[id(v)]
                if new is not None:
                    self.saved.append((m, k, v))
                    setattr(m, k, new)
        for (m, k), v in self.extra.items():
            self.saved.append((m, k, getattr(m, k, _ABSENT)))
            setattr(m, k, v)
        # float(x) / complex(x) on a symbolic value inside the modules under test: keep the symbol
        for m in self.modules:
            for k, v in (("float", _p_float), ("complex", _p_complex)):
                if k not in vars(m):
                    self.saved.append((m, k, _ABSENT))
                    setattr(m, k, v)
        return self

    def __exit__(self, *exc):
        Installed.active = self._outer
        self.clear_caches()
        for m, k, v in reversed(self.saved):
            _restore(m, k, v)
        self.saved = []
        return False
