"""Hash-consed term DAG over Real / Bool (and a little Int), with deferred transcendental atoms.

Folding is limited to constant arithmetic, flattening and collection of like terms inside sums and
products.  Nothing is distributed or expanded: polynomial identity testing stays with the solver.
"""
from fractions import Fraction
import math
import numbers

_table = {}
_byid = []


class Term:
    __slots__ = ("op", "args", "val", "sort", "id")

    def __repr__(self):
        return "<%s#%d>" % (self.op, self.id)

    def __hash__(self):
        return self.id

    def __eq__(self, o):
        return self is o


def _mk(op, args=(), val=None, sort="Real"):
    key = (op, tuple(a.id for a in args), val, sort)
    t = _table.get(key)
    if t is None:
        t = Term()
        t.op, t.args, t.val, t.sort = op, tuple(args), val, sort
        t.id = len(_byid)
        _byid.append(t)
        _table[key] = t
    return t


def to_fraction(x):
    if isinstance(x, Fraction):
        return x
    if isinstance(x, bool):
        return Fraction(int(x))
    if isinstance(x, numbers.Integral):
        return Fraction(int(x))
    if isinstance(x, numbers.Real):
        f = float(x)
        if f != f or f in (float("inf"), float("-inf")):
            raise ValueError("non-finite constant %r" % (x,))
        return Fraction(f)
    raise TypeError("not a real constant: %r" % (type(x),))


def const(x):
    return _mk("const", (), to_fraction(x))


ZERO = const(0)
ONE = const(1)
TRUE = _mk("bconst", (), True, "Bool")
FALSE = _mk("bconst", (), False, "Bool")
PI = _mk("var", (), "pi", "Real")


def var(name, sort="Real"):
    return _mk("var", (), name, sort)


def is_const(t):
    return t.op == "const"


# ------------------------------------------------------------------ arithmetic
# add node: val = (c0, (coef_1, .., coef_k)), args = (t_1..t_k), t_i non-const non-add, sorted by id
# mul node: val = (e_1..e_k) positive int exponents, args sorted by id, t_i non-const, no numeric factor

def _split_scaled(t):
    """t == coef * core  (core a non-add term, or None when t is a constant)"""
    if t.op == "const":
        return t.val, None
    if t.op == "add":
        c0, coefs = t.val
        if c0 == 0 and len(coefs) == 1:
            return coefs[0], t.args[0]
    return Fraction(1), t


def add(*ts):
    c0 = Fraction(0)
    acc = {}
    order = {}
    for t in ts:
        if t.op == "const":
            c0 += t.val
        elif t.op == "add":
            k0, coefs = t.val
            c0 += k0
            for c, a in zip(coefs, t.args):
                acc[a.id] = acc.get(a.id, 0) + c
                order[a.id] = a
        else:
            acc[t.id] = acc.get(t.id, 0) + 1
            order[t.id] = t
    items = sorted((i, c) for i, c in acc.items() if c != 0)
    if not items:
        return const(c0)
    if len(items) == 1 and c0 == 0 and items[0][1] == 1:
        return order[items[0][0]]
    return _mk("add", tuple(order[i] for i, _ in items), (c0, tuple(c for _, c in items)))


def scale(k, t):
    k = to_fraction(k)
    if k == 0:
        return ZERO
    if k == 1:
        return t
    if t.op == "const":
        return const(k * t.val)
    if t.op == "add":
        c0, coefs = t.val
        return _mk("add", t.args, (c0 * k, tuple(c * k for c in coefs)))
    return _mk("add", (t,), (Fraction(0), (k,)))


def neg(t):
    return scale(-1, t)


def sub(a, b):
    return add(a, neg(b))


def mul(*ts):
    k = Fraction(1)
    acc = {}
    order = {}
    for t in ts:
        c, core = _split_scaled(t)
        k *= c
        if k == 0:
            return ZERO
        if core is None:
            continue
        if core.op == "mul":
            for e, a in zip(core.val, core.args):
                acc[a.id] = acc.get(a.id, 0) + e
                order[a.id] = a
        else:
            acc[core.id] = acc.get(core.id, 0) + 1
            order[core.id] = core
    items = sorted(acc.items())
    if not items:
        return const(k)
    if len(items) == 1 and items[0][1] == 1:
        return scale(k, order[items[0][0]])
    m = _mk("mul", tuple(order[i] for i, _ in items), tuple(e for _, e in items))
    return scale(k, m)


def powi(t, n):
    assert isinstance(n, int) and n >= 0
    if n == 0:
        return ONE
    if t.op == "const":
        return const(t.val ** n)
    return mul(*([t] * n))


# ------------------------------------------------------------------ booleans

def _cmp_fold(op, a, b):
    if a.op == "const" and b.op == "const":
        r = {"eq": a.val == b.val, "le": a.val <= b.val, "lt": a.val < b.val}[op]
        return TRUE if r else FALSE
    if a is b:
        return FALSE if op == "lt" else TRUE
    # constant difference (e.g. x+1 vs x)
    d = sub(a, b)
    if d.op == "const":
        r = {"eq": d.val == 0, "le": d.val <= 0, "lt": d.val < 0}[op]
        return TRUE if r else FALSE
    return None


def eq(a, b):
    if a.sort == "Bool":
        if a is b:
            return TRUE
        return _mk("eq", (a, b) if a.id <= b.id else (b, a), None, "Bool")
    f = _cmp_fold("eq", a, b)
    if f is not None:
        return f
    return _mk("eq", (a, b) if a.id <= b.id else (b, a), None, "Bool")


def le(a, b):
    f = _cmp_fold("le", a, b)
    return f if f is not None else _mk("le", (a, b), None, "Bool")


def lt(a, b):
    f = _cmp_fold("lt", a, b)
    return f if f is not None else _mk("lt", (a, b), None, "Bool")


def not_(a):
    if a is TRUE:
        return FALSE
    if a is FALSE:
        return TRUE
    if a.op == "not":
        return a.args[0]
    return _mk("not", (a,), None, "Bool")


def and_(*ts):
    out = []
    seen = set()
    for t in ts:
        if t is TRUE:
            continue
        if t is FALSE:
            return FALSE
        sub_ = t.args if t.op == "and" else (t,)
        for s in sub_:
            if s.id not in seen:
                seen.add(s.id)
                out.append(s)
    if not out:
        return TRUE
    if len(out) == 1:
        return out[0]
    return _mk("and", tuple(sorted(out, key=lambda x: x.id)), None, "Bool")


def or_(*ts):
    out = []
    seen = set()
    for t in ts:
        if t is FALSE:
            continue
        if t is TRUE:
            return TRUE
        sub_ = t.args if t.op == "or" else (t,)
        for s in sub_:
            if s.id not in seen:
                seen.add(s.id)
                out.append(s)
    if not out:
        return FALSE
    if len(out) == 1:
        return out[0]
    return _mk("or", tuple(sorted(out, key=lambda x: x.id)), None, "Bool")


def implies(a, b):
    return or_(not_(a), b)


def ite(c, a, b):
    if c is TRUE:
        return a
    if c is FALSE:
        return b
    if a is b:
        return a
    return _mk("ite", (c, a, b), None, a.sort)


def absval(t):
    if t.op == "const":
        return const(abs(t.val))
    return ite(le(ZERO, t), t, neg(t))


# ------------------------------------------------------------------ linear forms for angles / hyperbolic arguments

PI_FLOAT = math.pi


def _pi_multiple(fr):
    """rational constant (probably a float literal) -> Fraction m with fr ~= m*pi (denominator | 24), or None"""
    f = float(fr)
    if f == 0:
        return Fraction(0)
    m = f / PI_FLOAT * 24
    r = round(m)
    if r != 0 and abs(m - r) < 1e-10 * max(1.0, abs(m)):
        return Fraction(r, 24)
    return None


class LinForm:
    """sum_i coef_i * base_i  +  pim * pi  (+ const radians, only if not a recognisable pi multiple)"""
    __slots__ = ("items", "pim", "const")

    def __init__(self, items=None, pim=0, const=0):
        self.items = {k: v for k, v in (items or {}).items() if v[1] != 0}  # id -> (term, coef)
        self.pim = Fraction(pim)
        self.const = Fraction(const)

    def key(self):
        return (tuple(sorted((i, c) for i, (_, c) in self.items.items())), self.pim, self.const)

    def bases(self):
        return tuple(t for _, (t, _) in sorted(self.items.items()))

    def scaled(self, k):
        return LinForm({i: (t, c * k) for i, (t, c) in self.items.items()}, self.pim * k, self.const * k)

    def plus(self, o):
        d = dict(self.items)
        for i, (t, c) in o.items.items():
            d[i] = (t, d[i][1] + c) if i in d else (t, c)
        return LinForm(d, self.pim + o.pim, self.const + o.const)

    def is_zero(self):
        return not self.items and self.pim == 0 and self.const == 0


_LINEAR_BASES = ("var", "atan2", "atan", "asinh", "acosh", "acos", "asin", "log")


def linform(t, angle=True):
    """decompose a real term into a linear form over opaque bases; with angle=True constants close to
    rational multiples of pi (denominator dividing 24) are read as those multiples"""
    if t.op == "const":
        if t.val == 0:
            return LinForm()
        if angle:
            m = _pi_multiple(t.val)
            if m is not None:
                return LinForm({}, m, 0)
        # opaque constant base: |c| with a sign, so that f(-c) and f(c) share their atoms
        if t.val < 0:
            a = const(-t.val)
            return LinForm({a.id: (a, Fraction(-1))})
        return LinForm({t.id: (t, Fraction(1))})
    if t is PI:
        return LinForm({}, 1, 0) if angle else LinForm({PI.id: (PI, Fraction(1))})
    if t.op == "add":
        c0, coefs = t.val
        f = linform(const(c0), angle)
        rest = []
        for c, a in zip(coefs, t.args):
            if angle and a.op == "floordiv":
                # x % (2 pi j) = x - 2 pi j k with k an integer: invisible to cos and sin
                m = _pi_multiple(c)
                if m is not None and m.denominator == 1 and m.numerator % 2 == 0:
                    continue
            if a.op in _LINEAR_BASES or a is PI:
                f = f.plus(linform(a, angle).scaled(c))
            else:
                rest.append(scale(c, a))
        if rest:
            # all non-linear summands form ONE opaque base (so that exp(x*x*c*c + x*x*s*s) has a single atom)
            r = add(*rest)
            k, core = _split_scaled(r)
            if core is None:
                f = f.plus(linform(r, angle))
            else:
                if k < 0:
                    pass
                f = f.plus(LinForm({core.id: (core, k)}))
        return f
    return LinForm({t.id: (t, Fraction(1))})


_UGLY = 10 ** 6
_kref = {}


def _tame(f):
    """A coefficient with a huge numerator or denominator (a product of float literals, e.g. a unit conversion factor)
    would make the atomizer express cos(K x) as a K-fold multiple angle.  Such a coefficient is moved into the base:
    K x = r * (k x) with k the first such coefficient seen for x and r a small rational (so that doubled and halved
    angles still share their base)."""
    if all(b.op == "const" or (abs(c.numerator) <= _UGLY and c.denominator <= _UGLY) for b, c in f.items.values()):
        return f
    items = {}
    for i, (b, c) in f.items.items():
        if b.op == "const" or (abs(c.numerator) <= _UGLY and c.denominator <= _UGLY):
            nb, r = b, c
        else:
            refs = _kref.setdefault(b.id, [])
            for k in refs:
                r = c / k
                if abs(r.numerator) <= 64 and r.denominator <= 64:
                    break
            else:
                k = abs(c)
                refs.append(k)
                r = c / k
            nb = _mk("add", (b,), (Fraction(0), (k,)))
        if nb.id in items:
            items[nb.id] = (nb, items[nb.id][1] + r)
        else:
            items[nb.id] = (nb, r)
    return LinForm(items, f.pim, f.const)


def _form_atom(op, kind, form, sort="Real"):
    return _mk(op, form.bases(), (kind,) + form.key(), sort)


def form_of_atom(t):
    """inverse of _form_atom: returns (kind, LinForm)"""
    kind, items, pim, c = t.val
    byid = {a.id: a for a in t.args}
    return kind, LinForm({i: (byid[i], co) for i, co in items}, pim, c)


def trig(kind, t):
    """cos / sin of a real term"""
    f = _tame(linform(t, angle=True))
    if not f.items:
        q = (f.pim * 2)
        if q.denominator == 1:
            k = int(q) % 4
            c, s = [(1, 0), (0, 1), (-1, 0), (0, -1)][k]
            return const(c if kind == "cos" else s)
    # canonical sign: make first coefficient positive
    if f.items:
        first = min(f.items)
        if f.items[first][1] < 0 and kind == "cos":
            f = f.scaled(-1)
        elif f.items[first][1] < 0 and kind == "sin":
            return neg(_form_atom("trig", "sin", f.scaled(-1)))
    f.pim = f.pim % 2
    return _form_atom("trig", kind, f)


def hyp(kind, t):
    """cosh / sinh of a real term"""
    f = _tame(linform(t, angle=False))
    if f.is_zero():
        return ONE if kind == "cosh" else ZERO
    if f.items:
        first = min(f.items)
        if f.items[first][1] < 0:
            f = f.scaled(-1)
            if kind == "sinh":
                return neg(_form_atom("hyp", "sinh", f))
    return _form_atom("hyp", kind, f)


def _isqrt_fraction(fr):
    if fr < 0:
        return None
    n, d = fr.numerator, fr.denominator
    rn, rd = math.isqrt(n), math.isqrt(d)
    if rn * rn == n and rd * rd == d:
        return Fraction(rn, rd)
    return None


def sqrt(n, d=ONE):
    """sqrt(n/d) for n/d >= 0"""
    if n.op == "const" and d.op == "const":
        v = n.val / d.val
        r = _isqrt_fraction(v)
        if r is not None:
            return const(r)
        # pull out square factors: sqrt(p/q) = sqrt(p*q)/q, then largest square factor of p*q
        if v < 0:
            raise ValueError("sqrt of negative constant %r" % (v,))
        m = v.numerator * v.denominator
        if m < 10 ** 12:
            sq = 1
            k = 2
            mm = m
            while k * k <= mm:
                while mm % (k * k) == 0:
                    mm //= k * k
                    sq *= k
                k += 1
            return scale(Fraction(sq, v.denominator), _mk("sqrt", (const(mm), ONE)))
        return _mk("sqrt", (const(v), ONE))
    if d.op == "const":
        n, d = scale(1 / d.val, n), ONE
    return _mk("sqrt", (n, d))


def quot(n, d):
    """opaque quotient n/d (used where a division-free numerator/denominator pair cannot be kept, e.g. as the
    argument of a transcendental atom); d != 0 is the caller's assumption"""
    if d.op == "const":
        return scale(1 / d.val, n)
    if n.op == "const" and n.val == 0:
        return ZERO
    return _mk("quot", (n, d))


def floordiv(x, m):
    """floor(x / m) for a positive rational constant m, as a real-valued term (an integer)"""
    m = to_fraction(m)
    assert m > 0
    if x.op == "const":
        return const(math.floor(x.val / m))
    return _mk("floordiv", (x,), m)


def atan2(y, x):
    if y.op == "const" and x.op == "const":
        if y.val == 0 and x.val >= 0:
            return ZERO
        if y.val == 0 and x.val < 0:
            return PI
        if x.val == 0:
            return scale(Fraction(1, 2) if y.val > 0 else Fraction(-1, 2), PI)
    return _mk("atan2", (y, x))


def is_nonneg(t):
    """syntactic sufficient condition for t >= 0"""
    if t.op == "const":
        return t.val >= 0
    if t.op == "sqrt":
        return True
    if t.op == "mul":
        return all(e % 2 == 0 or is_nonneg(a) for e, a in zip(t.val, t.args))
    if t.op == "add":
        c0, coefs = t.val
        return c0 >= 0 and all(c >= 0 and is_nonneg(a) for c, a in zip(coefs, t.args))
    if t.op == "ite":
        return is_nonneg(t.args[1]) and is_nonneg(t.args[2])
    return False


def atan_quot(n, d):
    """atan(n/d) for d > 0 (kept as a pair so that no auxiliary quotient variable is needed)"""
    if d.op == "const":
        return unary_atom("atan", scale(1 / d.val, n))
    if n.op == "const" and n.val == 0:
        return ZERO
    return _mk("atan", (n, d))


def unary_atom(op, x):
    """atan, asinh, acosh, acos, asin, log"""
    if x.op == "const":
        if op in ("atan", "asinh", "asin") and x.val == 0:
            return ZERO
        if op in ("acosh", "log") and x.val == 1:
            return ZERO
        if op == "acos" and x.val == 1:
            return ZERO
    return _mk(op, (x,))


# ------------------------------------------------------------------ traversal / evaluation

def subterms(roots):
    """all distinct subterms, children before parents"""
    seen = set()
    out = []
    stack = [(r, False) for r in roots]
    while stack:
        t, done = stack.pop()
        if done:
            out.append(t)
            continue
        if t.id in seen:
            continue
        seen.add(t.id)
        stack.append((t, True))
        for a in t.args:
            if a.id not in seen:
                stack.append((a, False))
    return out


def free_vars(roots):
    return [t for t in subterms(roots) if t.op == "var"]


class EvalError(Exception):
    pass


def evaluate(roots, env):
    """numeric (float) evaluation.  env: var name -> float/bool.  returns dict id -> value for all subterms"""
    try:
        return _evaluate(roots, env)
    except OverflowError as e:
        raise EvalError("overflow: %s" % (e,))


def _evaluate(roots, env):
    val = {}
    for t in subterms(roots):
        op = t.op
        a = [val[x.id] for x in t.args]
        if op == "const":
            v = float(t.val)
        elif op == "bconst":
            v = t.val
        elif op == "var":
            if t is PI:
                v = math.pi
            else:
                if t.val not in env:
                    raise EvalError("no value for %s" % t.val)
                v = env[t.val]
        elif op == "add":
            c0, coefs = t.val
            v = float(c0)
            for c, x in zip(coefs, a):
                v += float(c) * x
        elif op == "mul":
            v = 1.0
            for e, x in zip(t.val, a):
                v *= x ** e
        elif op == "eq":
            v = (a[0] == a[1]) if t.args[0].sort == "Bool" else abs(a[0] - a[1]) <= 1e-12 * max(1.0, abs(a[0]), abs(a[1]))
        elif op == "le":
            v = a[0] <= a[1] + 1e-12 * max(1.0, abs(a[0]), abs(a[1]))
        elif op == "lt":
            v = a[0] < a[1] - 1e-12 * max(1.0, abs(a[0]), abs(a[1]))
        elif op == "not":
            v = not a[0]
        elif op == "and":
            v = all(a)
        elif op == "or":
            v = any(a)
        elif op == "ite":
            v = a[1] if a[0] else a[2]
        elif op in ("trig", "hyp"):
            kind, items, pim, c = t.val
            byid = {x.id: val[x.id] for x in t.args}
            ang = float(c) + (float(pim) * math.pi if op == "trig" else 0.0)
            for i, co in items:
                ang += float(co) * byid[i]
            v = getattr(math, kind)(ang)
        elif op == "sqrt":
            q = a[0] / a[1]
            if q < 0:
                if q > -1e-12:
                    q = 0.0
                else:
                    raise EvalError("sqrt of negative %r" % q)
            v = math.sqrt(q)
        elif op == "atan2":
            v = math.atan2(a[0], a[1])
        elif op == "quot":
            if a[1] == 0:
                raise EvalError("division by zero")
            v = a[0] / a[1]
        elif op in ("atan", "asinh", "acosh", "acos", "asin", "log"):
            try:
                v = getattr(math, op)(a[0] if len(a) == 1 else a[0] / a[1])
            except ValueError as e:
                raise EvalError(str(e))
        elif op == "floordiv":
            v = float(math.floor(a[0] / float(t.val) + 1e-15))
        elif op == "toreal":
            v = float(a[0])
        elif op == "floor":
            v = math.floor(a[0])
        else:
            raise EvalError("cannot evaluate op %s" % op)
        val[t.id] = v
    return val


def evaluate1(t, env):
    return evaluate([t], env)[t.id]
