#!/bin/bash
# tools/eval_seed.sh <seed-id> <source-dir-with patch.diff/demo.py/notes.md> "<check ids to run>"
# 1. confirms the seed in a scratch worktree (demo fails with the patch, passes without)
# 2. applies it to /repo, runs the given quick checks, undoes it straight afterwards
set -u
ID=$1; SRC=$2; CHECKS=$3
DST=/verif/seeded/$ID
mkdir -p $DST
cp $SRC/patch.diff $SRC/demo.py $DST/ 2>/dev/null
[ -f $SRC/notes.md ] && cp $SRC/notes.md $DST/notes.md
WT=/tmp/ev_$ID
git -C /repo worktree remove --force $WT 2>/dev/null
git -C /repo worktree add -q $WT HEAD
if ! git -C $WT apply $DST/patch.diff; then echo "PATCH DOES NOT APPLY"; git -C /repo worktree remove --force $WT; exit 2; fi
(cd $WT && PYTHONPATH=$WT PYTHONWARNINGS=ignore timeout 900 /venv/bin/python $DST/demo.py > $DST/demo_with_patch.log 2>&1); RC1=$?
(cd /tmp && PYTHONPATH=/repo PYTHONWARNINGS=ignore timeout 900 /venv/bin/python $DST/demo.py > $DST/demo_without_patch.log 2>&1); RC0=$?
echo "demo with patch: exit $RC1 ; without: exit $RC0"
git -C /repo worktree remove --force $WT
if [ -n "$(git -C /repo status --porcelain)" ]; then echo "/repo not clean"; exit 2; fi
git -C /repo apply $DST/patch.diff
RES=""
for c in $CHECKS; do
  out=$(cd /verif && timeout 3000 ./check $c --tier quick 2>&1 | grep -v -i "conda\|pkg_res")
  line=$(echo "$out" | tail -1)
  nv=$(echo "$out" | grep -c "^VIOLATION")
  echo "$c: $nv VIOLATION lines; $line"
  echo "$out" | grep "^VIOLATION\|^  #\|VIOLATING-JOBS\|HARNESS-ERROR\|INCONCLUSIVE" | head -6 | cut -c1-300
  RES="$RES $c:$nv"
done
git -C /repo checkout -- .
echo "RESULT $ID demo_with=$RC1 demo_without=$RC0 checks=$RES"
