#!/usr/bin/env python3
"""Regenerates /verif/MANIFEST.json from the table below (single source of truth for claims)."""
import json
import os

HERE = os.path.dirname(os.path.dirname(os.path.abspath(__file__)))
IDS = [json.loads(l)["id"] for l in open(os.path.join(HERE, "properties.jsonl"))]

TECH = "symbolic execution of the real numpy code on symbolic scalars; every obligation decided by an SMT solver (z3 4.8/5.1, cvc5; QF_NRA) for all real parameter values and an arbitrary symbolic prior state at the listed sizes; counterexamples replayed on the float code"
NOTE = ("floats are read as reals; sizes (modes, cutoff, program length) are the bounds written to the evidence file; "
        "trusted: the term layer and atom axioms (cos^2+sin^2=1, cosh^2-sinh^2=1, sqrt, atan2 principal branch), the numpy shims listed "
        "under coverage.stubs (validated on every run against the float code at random points), the solvers, and the reference models "
        "written from the documented conventions (notes/conventions.md)")

CLAIMS = {
    "C01": dict(text="bounded symbolic model checking: every shared operation of the Gaussian and bosonic backends, on every ordered choice "
                     "of target modes, maps an ARBITRARY symbolic state to exactly the documented transformation (so the two agree with "
                     "each other and with an independent phase-space calculation) for all real parameters; the Fock simulator's one- and two-mode "
                     "gate plumbing acts as the embedded operator on symbolic tensors (D=2,3, pure and mixed, every ordered mode pair) and its gate "
                     "matrices (thewalrus recurrences run in Python mode on symbolic parameters) intertwine the ladder operators as documented; "
                     "front-end dispatch: for every gate with a native kernel (D, S, R, BS, S2, MZ, K, CK; plain and daggered, both target "
                     "orders) the calls that the real Gate.apply hands to a recording backend compose to the documented gate or its inverse, "
                     "including the path on which the zero-parameter shortcut makes no call",
                design_ref="5/C01"),
    "C05": dict(text="bounded symbolic model checking, one inductive step from an arbitrary state: after any gate/channel/preparation on "
                     "targets t every entry of the state outside t is unchanged, and preparations decouple the target, for all parameters",
                design_ref="5/C05"),
    "C07": dict(text="bounded symbolic model checking of structural physicality: N stays Hermitian, M and covariance matrices symmetric, "
                     "the covariance handed to users is real, weights are preserved, passive operations conserve photon number and loss "
                     "only lowers it, from an arbitrary symbolic state for all parameters",
                design_ref="5/C07"),
}
CLAIMS["C02"] = dict(text="bounded symbolic model checking: every gate decomposition in ops.py (X, Z, P, CX, CZ, S2, MZ, Fourier and the native "
                    "D/S/R/BS), with free parameters bound to symbolic reals and evaluated by the real par_evaluate/lambdify path, compiled by "
                    "the real Compiler.decompose and executed on the real Gaussian backend from an ARBITRARY symbolic state, equals the documented "
                    "transformation for all parameter values, both dagger flags and several target orders; ops.Interferometer with the rectangular and "
                    "triangular meshes on every 3x3 phased permutation (symbolic phases): the commands returned by the real decomposition, each read "
                    "with its documented matrix, multiply to U", design_ref="5/C02")
CLAIMS["C03"] = dict(text="bounded symbolic model checking: (a) the merge rule of every one-mode-mergeable and two-mode gate/channel/preparation "
                    "family, run on symbolic parameters with all dagger combinations (its own equality tests fork), gives an operation whose action "
                    "on an ARBITRARY symbolic state equals the composition, or None only for a true identity; (b) Program.optimize on every command "
                    "sequence up to the length bound over an alphabet with daggers, channels, preparations, two-mode gates and gates depending on a "
                    "measured parameter leaves the same final state (shared symbolic measurement outcomes) and does not touch the original",
                    design_ref="5/C03")
CLAIMS["C11"] = dict(text="bounded symbolic model checking: for source circuits over the accepted operations (D, S, R, BS, MZ, sMZ, S2, Loss) with "
                    "symbolic parameters, both dagger flags, both target orders, on contiguous and non-contiguous index sets of registers "
                    "up to 10 (17 thorough) modes, the output of the real gaussian_unitary / passive compilers, interpreted on the registers "
                    "the output names in that order, has the same net (S,d) / T as the ordered product of the documented source maps; "
                    "for gaussian_merge every hybrid circuit up to the length bound is compared with non-Gaussian operations interpreted as "
                    "opaque symbolic affine-symplectic markers, so equality for all marker values is exactly 'every non-Gaussian operation "
                    "kept its place'; any exception other than CircuitError is a violation", design_ref="5/C11")
CLAIMS["C06"] = dict(text="bounded symbolic model checking with the random generator replaced by recording stubs that return symbolic outcomes: "
                    "(1) the parameters handed to the sampler equal the Born distribution of an ARBITRARY symbolic state (Gaussian homodyne at any "
                    "angle and symbolic eps, heterodyne; Fock number measurement of every ordered subset: the diagonal of the real partial trace in "
                    "ascending mode order); (2) the post-measurement state equals the reference conditional (Schur complement) update / projected "
                    "renormalised state for every outcome; (3) Gaussian and single-peak bosonic backends give the same conditional state for the same "
                    "post-selected heterodyne outcome; (4) through the real LocalEngine, one row per shot, columns in ascending mode order and every "
                    "register holding its own outcome for every order of measurement commands", design_ref="5/C06",
                    note=NOTE + "; outside the claim: acceptance statistics of the bosonic rejection sampler, the discretised Fock homodyne sampler, "
                    "hafnian/torontonian samplers of thewalrus, the exactness of finite-eps homodyne (both Gaussian-type backends approximate it differently)")
CLAIMS["C15"] = dict(text="bounded symbolic model checking with strawberryfields.hbar set to a symbolic h > 0: position/momentum gates, homodyne "
                    "post-selection and sampling, and Gaussian state preparation, given inputs rescaled by their documented units (x, p, select ~ sqrt(h), "
                    "V ~ h), drive the hbar-free real Gaussian backend to exactly the same state from an ARBITRARY prior state; Gaussian, bosonic and Fock "
                    "state objects scale means by sqrt(h/2) and covariances by h/2 and return h-independent mean photon numbers, variances, parity and "
                    "vacuum fidelity", design_ref="5/C15")
CLAIMS["C16"] = dict(text="bounded symbolic model checking of state objects built directly on ARBITRARY symbolic data (Gaussian (mu,V) n<=2(3), bosonic 2 "
                    "peaks, Fock ket/dm D=2,3): reduced states equal the explicit partial trace / sub-blocks for every ascending subset; mean photon, "
                    "variance, number_expectation, parity, quadrature moments, Fock probabilities and trace agree across methods of one object, between a "
                    "ket and its own density matrix, and between the Gaussian and single-peak bosonic classes; parity answers for exactly the requested "
                    "subset; backend.state(modes) returns the requested modes in the requested order with their own data and names",
                    design_ref="5/C16", note=NOTE + "; outside: methods implemented through thewalrus hafnians / sqrtm (Gaussian fock_prob, fidelity, number_expectation), Wigner functions")
CLAIMS["C08"] = dict(text="bounded symbolic model checking, one inductive step per history state: for every register size K<=3 (4 thorough) and every "
                    "activity vector, the pre-state is produced by the real New/Del path on a real engine and the data of the active modes are replaced "
                    "by symbols; then one step (New(1|2), Del, one- and two-mode gate, use of a deleted / just-deleted / duplicated register) runs as a "
                    "second program segment on the same engine, on the Gaussian, bosonic and Fock backends; asserted: register, backend.get_modes() and "
                    "the returned state agree on the active indices, labels are q[index] in index order, invalid targets raise RegRefError (front end) "
                    "or ValueError/IndexError (backend API) leaving the state unchanged, and -- decided by the solver because the data are symbolic -- "
                    "every untouched mode carries its own data", design_ref="5/C08")
CLAIMS["C18"] = dict(text="bounded symbolic model checking: for every pair of programs over the listed alphabet (R, S, D with symbolic parameters, "
                    "generic and symmetric beamsplitters in both mode orders, daggered variants; prefixes included) up to the length bound, the real "
                    "Program.__eq__ / Program.equivalence are executed with their parameter comparisons forking on real-arithmetic predicates, and on "
                    "every path that reports True the solver proves that both programs map an ARBITRARY symbolic state to the same state on the real "
                    "Gaussian backend; plus reflexivity, symmetry of the returned value and invariance of equivalence under swapping adjacent commands "
                    "on disjoint modes", design_ref="5/C18",
                    note=NOTE + "; beamsplitter parameters are numeric instances (the mod-pi reduction of a symbolic angle inside program_equivalence makes the queries mixed integer/non-linear)")
CLAIMS["C04"] = dict(text="bounded symbolic execution of the real program_utils / GBS code, two engines: (P) the shape of every command (one- or two-mode targets, "
                    "optional measured-value dependency on any mode, predicate bit) is a symbolic choice variable and every shape a solver-checked branch "
                    "of the path explorer: ALL sequences of 3 commands on 2 modes with predicate bits and on 3 modes without (thorough: 3 commands on 3 "
                    "modes with bits, 4 commands on 2 modes); (X) CrossHair (z3-driven) for every command sequence "
                    "within its bounds (quick: <=2 commands on 3 modes, with measured-parameter dependencies and GBS circuits on 2 modes; thorough: <=3): "
                    "list_to_DAG has a path between every dependent pair and no edge against program order, "
                    "list_to_grid places every command on exactly the wires it touches or depends on in program order; DAG_to_list(list_to_DAG(seq)) "
                    "and group_operations return a permutation (by identity) of the input that keeps the order of every dependent pair, with no marked "
                    "operation in the leading or trailing part; GBS.compile either raises CircuitError or returns the Gaussian part in a dependency-"
                    "respecting order followed by one MeasureFock on exactly the measured modes in ascending order. Only 'Confirmed over all paths' "
                    "counts; each harness has a reachability twin that must be refuted", design_ref="5/C04", engine="crosshair",
                    technique="symbolic execution of the real program_utils / GBS code over symbolic command descriptions: path explorer with z3 feasibility queries (Engine P) and CrossHair (z3); verdict = every feasible path within the stated bounds satisfies the dependency oracle",
                    note="CrossHair realises symbolic integers at hash/dict boundaries (networkx), so its verdict is a solver-driven exhaustive case split rather than a single formula; bounds are small because cost grows about tenfold per command; trusted: CrossHair 0.0.110, z3, the respects()/wires() oracle in xh/c04_reorder.py")
CLAIMS["C09"] = dict(text="bounded symbolic model checking through the real LocalEngine: for every command sequence up to the length bound over an alphabet "
                    "with daggered gates, decomposed gates (X, MZ), channels, preparations, a homodyne measurement (symbolic outcome shared between the "
                    "runs) and a gate using the measured parameter, and every cut into two segments, run([p1,p2]), run(p1);run(p2) on a second engine "
                    "with the SAME program objects, the concatenated program, and reset-then-run all end in the same state, from an ARBITRARY symbolic "
                    "initial state and for all parameter values (path-feasibility queries decide which branches of Gate.apply / measurement code exist; "
                    "the state equalities then fold by hash-consing or go to the solver); circuit lists, operation objects, parameter objects, dagger "
                    "flags and registers are identity-unchanged after run and after compile for 5 targets; an apply aborted by an injected backend fault "
                    "leaves the operation untouched", design_ref="5/C09")
CLAIMS["C10"] = dict(text="bounded symbolic model checking: (1) for every expression template ops.py builds with sympy functions (sums, products, "
                    "quotients, powers, sin, cos, exp, sqrt, Abs, sign, asinh, acosh, atan, atan2, cosh, tanh; free and measured atoms; object arrays) "
                    "the value returned by the real par_evaluate (sympy lambdify, numpy printer, called on symbolic reals) equals the same template "
                    "evaluated directly on the values by a value-level twin of par_funcs (no sympy expression in between, so a simplification under wrong "
                    "symbol assumptions shows), for all real values (principal branches included) and, for measured parameters, all COMPLEX heterodyne "
                    "outcomes under re / im / conjugate / Abs; (2) program templates with "
                    "FreeParameters compiled and optimised BEFORE binding act, after binding, exactly like the template built on the values, from an "
                    "arbitrary state; (3) a measure / use / re-prepare / re-measure / use script, plain and after compile(optimize=True), reads the latest outcome of the right mode; use before "
                    "measurement, unbound and unknown parameters raise ParameterError; par_regref_deps is exact", design_ref="5/C10")
CLAIMS["C17"] = dict(text="bounded symbolic model checking of the numpy-only mesh decompositions: (1) for ARBITRARY complex matrix entries (no unitarity "
                    "assumed), on every branch (zero entry, swap, generic), the angles returned by nullT, nullTi, nullMZ, nullMZi make the targeted entry "
                    "of the product with the real T / Ti / mach_zehnder / mach_zehnder_inv exactly zero; T Ti = MZ MZ^-1 = 1, T, M, P unitary and "
                    "mach_zehnder equal to its documented matrix for all angles; (2) rectangular, rectangular_phase_end and triangular reconstruct every "
                    "U(2) (explicit 4-angle parametrisation) with a unit-modulus diagonal; (3) ALL FIVE meshes reconstruct every 3x3 phased permutation (each of the 6 "
                    "permutations with an arbitrary phase on every non-zero entry: the exact zeros drive the division-by-zero branches; thorough: 4x4, 24 "
                    "permutations) and rectangular / triangular every 3x3 block unitary U(2)+phase; (4) a non-unitary 2x2 input is refused by all five meshes",
                    design_ref="5/C17", note=NOTE + "; partial claim: takagi/williamson/bloch_messiah (LAPACK) and sun_compact are not encodable; end-to-end on dense unitaries for the MZ meshes and for sizes > 2 are outside")
CLAIMS["C13"] = dict(text="bounded symbolic model checking + CrossHair: (1) for single-band loop bodies (squeezer, one or two beamsplitter loops, rotation, "
                    "homodyne on the leading mode) with N in {2,3} concurrent modes, T<=3 (4 thorough) time bins, shift 'default' and 1, symbolic "
                    "per-bin parameter arrays, the real unrolled program (TDMProgram.unroll on N modes) and an explicit loop with a fresh mode per pulse "
                    "are run on the real Gaussian backend from an ARBITRARY symbolic state of the register with shared symbolic outcomes: every "
                    "measurement is handed the same (mean, covariance) -- equal conditionals at every step, hence equal joint distribution -- and the "
                    "unmeasured pulses end in the same state, and so does the real space-unrolled circuit (space_unroll, one mode per pulse); roll() restores circuit and register by identity; (2) every call sequence of length <=3 "
                    "over unroll(1|2)/space_unroll/roll leaves the expected form; (3) CrossHair: reshape_samples puts the outcome of pulse (shot, band, "
                    "bin) at that entry for symbolic N<=4, T<=4, shots<=3 (one band) and two bands of <=3", design_ref="5/C13",
                    note=NOTE + "; gate parameters are assumed non-zero in the loop harness (the p[0]==0 identity shortcut of Gate.apply is checked in C01/C02); outside: multi-band loop meaning, T>4, crop/delay arithmetic")
CLAIMS["C14"] = dict(text="bounded symbolic model checking with a semantic oracle: for every template (each interpretable operation family, zero-valued and negative literals, post-selection on the value zero, plain and "
                    "daggered, both target orders, numeric literals, free parameters, parameter expressions, measured-parameter expressions, post-"
                    "selected homodyne/heterodyne, channels, preparations, a mixed sequence) x {Blackbird, XIR, XIR with declarations}, the real writer, "
                    "the third-party parser (native) and the real loader produce a program that -- with free parameters bound to shared symbols and "
                    "measurement outcomes shared -- maps an ARBITRARY symbolic state to the same state as the source on the real Gaussian backend, for "
                    "all values; target, shots, cutoff_dim, dark_counts and measured modes survive; a TDM program keeps its per-bin arrays and unrolls to "
                    "the same circuit", design_ref="5/C14",
                    note=NOTE + "; partial claim: numeric literals are representatives (a literal must be concrete to be printed); symbolic parameters do not survive either format (two known findings)")
CLAIMS["C19"] = dict(text="CrossHair + bounded symbolic model checking: (1) CrossHair, confirmed over all paths: orbits(n) yields exactly the partitions of n "
                    "(sorted, positive, distinct, count = p(n)) for n<=8; sample_to_orbit / sample_to_event / orbit_to_sample are mutually consistent for "
                    "samples of length<=4; event_cardinality equals the brute-force count for photons<=5, max count<=5, modes<=4 (thorough: orbit_cardinality "
                    "vs exact multinomials, c_0/c_1 vs their definitions on all 4-node graphs); (2) Engine P: on ALL 64 four-node graphs (symbolic edge "
                    "indicators explored by forking) with SYMBOLIC real node weights, every value of the random index, the real grow / swap / shrink "
                    "return cliques of the input graph (maximal for grow, same size for swap, inside the subgraph for shrink) and the node chosen obeys "
                    "the documented rule: extremal degree, and -- decided by the solver under the path condition -- extremal weight among the candidates",
                    design_ref="5/C19", note=NOTE + "; graphs are bounded to 4 nodes; subgraph.search/resize and the hafnian-based probabilities are outside the claim")
CLAIMS["C20"] = dict(text="bounded symbolic model checking of the real train/qchem code with an exact symbolic differentiator (symx/diff.py): "
                    "ExpFeatures/Exp.jacobian == d weights/d theta (symbolic features and theta, n<=3); in photon-number-resolving mode "
                    "Stochastic._gradient_one_sample == d h_reparametrized/d theta for each sample and Stochastic.grad == d Stochastic.evaluate/d theta on a "
                    "pre-loaded sample set, for ARBITRARY real symmetric A_init, theta and cost values (N<=2 modes; this is the differential form of the "
                    "normalisation d log Z/d log w_k = <n_k>); mean_photons_by_mode / n_mean == diag((1-A^2)^-1)-1 and A_to_cov symmetric, pure, with "
                    "vacuum probability sqrt(det(1-O)); mean_clicks_by_mode == 1 - vacuum probability of the reduced one-mode state; "
                    "dynamics.TimeEvolution conserves every mode's photon number and implements the documented phase on an arbitrary Gaussian state "
                    "(n<=2; thorough n<=3)", design_ref="5/C20",
                    note=NOTE + "; partial claim: KL (hafnian/torontonian probabilities), vibronic gbs_params/duschinsky (SVD), similarity exact probabilities and samplers are outside (listed in evidence)")
CLAIMS["C12"] = dict(text="bounded symbolic model checking of the encodable kernels of hardware compilation (partial claim): (a) Range/Ranges.__contains__ and "
                    "Device.validate_parameters (scalars, flat and nested lists): accepted <=> some allowed range contains every value within atol, for "
                    "SYMBOLIC values and range ends (every comparison of the real code is a solver-checked branch, the verdict is proved under each "
                    "path condition); (b) Borealis.update_params: for symbolic loop offsets and user phases, 38 time bins (thorough 80), every subset of "
                    "user-set loops, each compensated phase lies in [-pi/2, pi/2] and is congruent mod pi to user phase + offset*floor(j/delay) minus the "
                    "previous loop's correction (QF_LIRA with floor atoms), user-set loops and non-phase parameters untouched; (c) Program.assert_modes / "
                    "TDMProgram.assert_modes: CircuitError <=> a measurement count / shape exceeds the device's, symbolic limits; (d) Xunitary.compile on squeezer-only "
                    "4-mode programs (repeated, literal-zero and symbolic possibly-zero squeezers, missing pairs; identity interferometer): CircuitError or "
                    "the device layout S2 S2|MZ R R|MZ R R|MeasureFock with exactly the source's net symplectic action", design_ref="5/C12",
                    note=NOTE + "; PARTIAL: layout conformance (networkx VF2 + blackbird template matching on concrete parameters) and preservation of photon statistics by "
                                "Xunitary/Xcov (Takagi/Bloch-Messiah via LAPACK, MZ-mesh queries undecided within the cap) are outside this technique's reach and NOT claimed")
NA_DEFAULT = "check not built yet in this session (plan: DESIGN.md section 5)"
NA = {}

man = {
    "version": 1,
    "setup_cmd": "./tools/setup_venv.sh",
    "hooks": {"guard": "SF_VERIF",
              "enable": "no hooks in /repo: stubs are installed from the harness process by replacing module namespaces (NUMBA_DISABLE_JIT=1 in the checking process only)",
              "baseline_off_cmd": "cd /repo && /venv/bin/python -m pytest -ra -q -p no:cacheprovider --timeout=900 --continue-on-collection-errors",
              "source_commits": [], "add_only": True},
    "engines": [
        {"name": "crosshair", "path": "xh/", "serves_properties": ["C04", "C13", "C19", "C12"],
         "kind_free_text": "CrossHair 0.0.110 contract checking (symbolic execution of Python with z3) of pure-Python integer/list kernels; props/xhrun.py runs one process per condition and replays counterexamples"},
        {"name": "symx", "path": "symx/", "serves_properties": sorted(CLAIMS),
         "kind_free_text": "symbolic execution of the real Python/numpy code on hash-consed term DAGs (Engine S) with path forking on "
                           "symbolic branch conditions (Engine P); SMT-LIB queries to z3-new / z3 / cvc5 binaries"},
    ],
    "checks": [],
    "notes": "exit codes of ./check: 0 held, 1 VIOLATION, 2 inconclusive (solver unknown / path budget), 3 harness error",
    "not_applicable": [],
}
for pid in IDS:
    if pid in CLAIMS:
        c = CLAIMS[pid]
        man["checks"].append({
            "property_id": pid,
            "quick_cmd": "./check %s --tier quick" % pid,
            "thorough_cmd": "./check %s --tier thorough" % pid,
            "evidence_file": "evidence/%s.json" % pid,
            "replay_cmd_template": "./check %s --replay {path}" % pid,
            "engine": c.get("engine", "symx"),
            "level_claimed": {"category": "model_checking", "text": c["text"], "design_ref": c["design_ref"]},
            "level_note": c.get("note", NOTE),
            "technique": c.get("technique", TECH),
        })
    else:
        man["not_applicable"].append({"property_id": pid, "reason": NA.get(pid, NA_DEFAULT)})
json.dump(man, open(os.path.join(HERE, "MANIFEST.json"), "w"), indent=1)
print("claimed:", sorted(CLAIMS), "not applicable:", [x["property_id"] for x in man["not_applicable"]])
