#!/bin/bash
# runs every claimed check (quick by default) and prints one line per property
cd "$(dirname "$0")/.."
TIER=${1:-quick}
for id in $(python3 -c "import json; print(' '.join(c['property_id'] for c in json.load(open('MANIFEST.json'))['checks']))"); do
  s=$(date +%s)
  out=$(timeout 7200 ./check $id --tier $TIER 2>&1 | grep -v -i "conda\|pkg_res")
  rc=$?
  e=$(date +%s)
  echo "$id rc=$(echo "$out" | tail -1 | grep -o 'exit [0-9]*') wall=$((e-s))s  $(echo "$out" | grep -c '^VIOLATION') violations $(echo "$out" | grep -c 'HARNESS-ERROR') harness-errors $(echo "$out" | grep -c 'INCONCLUSIVE') inconclusive"
done
