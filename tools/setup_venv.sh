#!/bin/bash
# builds the overlay venv with CrossHair (offline, from the wheelhouse); idempotent
set -e
V=${VERIF_VENV:-/verif/.venv}
if [ -x "$V/bin/crosshair" ] && "$V/bin/python" -c "import crosshair, strawberryfields" 2>/dev/null; then exit 0; fi
rm -rf "$V"
/venv/bin/python -m venv "$V"
SP=$("$V/bin/python" -c "import site; print(site.getsitepackages()[0])")
echo "import site; site.addsitedir('/venv/lib/python3.12/site-packages')" > "$SP/_overlay.pth"
echo "/repo" >> "$SP/_overlay.pth"
"$V/bin/pip" install -q --no-index --find-links /opt/veriftools/wheels crosshair-tool z3-solver >/dev/null
"$V/bin/python" -c "import crosshair, strawberryfields; print('overlay venv ready')"
