"""C04 under CrossHair: reorderings of a command sequence respect dependencies.

A command is described by symbolic small integers: modes a and b (a == b: single-mode command), optionally a "marked"
bit for group_operations' predicate, optionally dep: an extra mode the command depends on through a measured parameter
(dep == -1: none).  The tuple arity is kept minimal per condition: CrossHair's cost grows about tenfold per command.
The three-command conditions with dependencies or predicate bits run on 2 modes (on 3 modes they need more than 50
minutes each; that family is explored by the Engine P harness props/c04.py instead)."""
from typing import List, Tuple
import strawberryfields.program_utils as pu
from strawberryfields.program_utils import Command, RegRef

NM = 3       # modes


class Op:
    ns = 1

    def __init__(self, marked=False, deps=()):
        self.marked = marked
        self.measurement_deps = set(deps)


# networkx resolves its dispatch decorators lazily with exec(); do that once, concretely, before CrossHair traces
_r = [RegRef(0), RegRef(1)]
_w = [Command(Op(), [_r[0]]), Command(Op(True), [_r[0], _r[1]])]
pu.DAG_to_list(pu.list_to_DAG(_w))
pu.group_operations(_w, lambda op: op.marked)
import networkx as _nx
_nx.has_path(pu.list_to_DAG(_w), _w[0], _w[1])


def build(cmds):
    regs = [RegRef(i) for i in range(NM)]
    seq = []
    for a, b, marked, dep in cmds:
        deps = [regs[dep]] if dep >= 0 else []
        if a == b:
            seq.append(Command(Op(marked, deps), [regs[a]]))
        else:
            seq.append(Command(Op(marked, deps), [regs[a], regs[b]]))
    return seq


def wires(c):
    return set(r.ind for r in c.reg) | set(r.ind for r in c.op.measurement_deps)


def respects(seq, out):
    """out is a permutation (by identity) of seq keeping the relative order of dependent commands"""
    if len(out) != len(seq) or sorted(map(id, out)) != sorted(map(id, seq)):
        return False
    pos = {id(c): i for i, c in enumerate(out)}
    for i in range(len(seq)):
        for j in range(i + 1, len(seq)):
            if wires(seq[i]) & wires(seq[j]):
                if pos[id(seq[i])] > pos[id(seq[j])]:
                    return False
    return True


def ok2(cmds, L):
    return 1 <= len(cmds) <= L and all(0 <= a < NM and 0 <= b < NM for a, b in cmds)


def ok3(cmds, L, nm=NM):
    return 1 <= len(cmds) <= L and all(0 <= a < nm and 0 <= b < nm for a, b, m in cmds)


def okd(cmds, L, nm=NM):
    return 1 <= len(cmds) <= L and all(0 <= a < nm and 0 <= b < nm and -1 <= d < nm for a, b, d in cmds)


def roundtrip(cmds4):
    seq = build(cmds4)
    return respects(seq, pu.DAG_to_list(pu.list_to_DAG(seq)))


def group(cmds4):
    seq = build(cmds4)
    A, B, C = pu.group_operations(seq, lambda op: op.marked)
    if any(c.op.marked for c in A) or any(c.op.marked for c in C):
        return False
    if not B and C:
        return False
    return respects(seq, list(A) + list(B) + list(C))


def grid(cmds4):
    seq = build(cmds4)
    g = pu.list_to_grid(seq)
    for k, q in g.items():
        idx = [i for i, c in enumerate(seq) if k in wires(c)]
        if [id(c) for c in q] != [id(seq[i]) for i in idx]:
            return False
    return all(k in g for c in seq for k in wires(c))


def dagpaths(cmds4):
    """the DAG itself orders every dependent pair (whatever linearisation is picked later): a path from the earlier to the
    later command, and never an edge against the input order"""
    import networkx as nx
    seq = build(cmds4)
    dag = pu.list_to_DAG(seq)
    pos = {id(c): i for i, c in enumerate(seq)}
    if sorted(map(id, dag.nodes)) != sorted(map(id, seq)):
        return False
    for u, v in dag.edges:
        if pos[id(u)] >= pos[id(v)]:
            return False
    for i in range(len(seq)):
        for j in range(i + 1, len(seq)):
            if wires(seq[i]) & wires(seq[j]) and not nx.has_path(dag, seq[i], seq[j]):
                return False
    return True


def okr(cmds, nm=2):
    """exactly three commands: the shape 'X, a reader of X's wire, X again' needs three"""
    return len(cmds) == 3 and all(0 <= a < nm and 0 <= b < nm and -1 <= d < nm for a, b, d in cmds)


def check_dag_deps_L2(cmds: List[Tuple[int, int, int]]) -> bool:
    """
    pre: okd(cmds, 2, 2)
    post: _
    """
    return dagpaths([(a, b, False, d) for a, b, d in cmds])


def check_dag_deps_L3(cmds: List[Tuple[int, int, int]]) -> bool:
    """
    pre: okr(cmds)
    post: _
    """
    return dagpaths([(a, b, False, d) for a, b, d in cmds])


def twin_dag(cmds: List[Tuple[int, int, int]]) -> bool:
    """
    pre: okd(cmds, 2, 2)
    post: not _
    """
    return dagpaths([(a, b, False, d) for a, b, d in cmds])


def check_roundtrip_L2(cmds: List[Tuple[int, int]]) -> bool:
    """
    pre: ok2(cmds, 2)
    post: _
    """
    return roundtrip([(a, b, False, -1) for a, b in cmds])


def check_roundtrip_L3(cmds: List[Tuple[int, int]]) -> bool:
    """
    pre: ok2(cmds, 3)
    post: _
    """
    return roundtrip([(a, b, False, -1) for a, b in cmds])


def check_roundtrip_deps_L2(cmds: List[Tuple[int, int, int]]) -> bool:
    """
    pre: okd(cmds, 2, 2)
    post: _
    """
    return roundtrip([(a, b, False, d) for a, b, d in cmds])


def check_roundtrip_deps_L3(cmds: List[Tuple[int, int, int]]) -> bool:
    """
    pre: okd(cmds, 3, 2)
    post: _
    """
    return roundtrip([(a, b, False, d) for a, b, d in cmds])


def check_group_L2(cmds: List[Tuple[int, int, bool]]) -> bool:
    """
    pre: ok3(cmds, 2)
    post: _
    """
    return group([(a, b, m, -1) for a, b, m in cmds])


def check_group_L3(cmds: List[Tuple[int, int, bool]]) -> bool:
    """
    pre: ok3(cmds, 3, 2)
    post: _
    """
    return group([(a, b, m, -1) for a, b, m in cmds])


def check_grid_L2(cmds: List[Tuple[int, int, int]]) -> bool:
    """
    pre: okd(cmds, 2, 2)
    post: _
    """
    return grid([(a, b, False, d) for a, b, d in cmds])


def check_grid_L3(cmds: List[Tuple[int, int, int]]) -> bool:
    """
    pre: okd(cmds, 3, 2)
    post: _
    """
    return grid([(a, b, False, d) for a, b, d in cmds])


# ---- reachability twins: the same harness with a false postcondition must be refuted
def twin_roundtrip(cmds: List[Tuple[int, int]]) -> bool:
    """
    pre: ok2(cmds, 2)
    post: not _
    """
    return roundtrip([(a, b, False, -1) for a, b in cmds])


def twin_group(cmds: List[Tuple[int, int, bool]]) -> bool:
    """
    pre: ok3(cmds, 2)
    post: not _
    """
    return group([(a, b, m, -1) for a, b, m in cmds])


def twin_grid(cmds: List[Tuple[int, int, int]]) -> bool:
    """
    pre: okd(cmds, 2)
    post: not _
    """
    return grid([(a, b, False, d) for a, b, d in cmds])


# ---- GBS.compile: Gaussian part followed by one MeasureFock on exactly the measured modes, ascending; else CircuitError
import strawberryfields as _sf
from strawberryfields import ops as _ops
from strawberryfields.program_utils import CircuitError as _CircuitError
from strawberryfields.compilers.gbs import GBS as _GBS


def gbs(cmds):
    """cmds: (kind, a, b): kind 0 = Rgate on a, 1 = BSgate on (a, b) (a != b), 2 = MeasureFock on a, 3 = MeasureFock on (a, b)"""
    regs = [RegRef(i) for i in range(NM)]
    seq = []
    for kind, a, b in cmds:
        if kind == 0:
            seq.append(Command(_ops.Rgate(0.1), [regs[a]]))
        elif kind == 1:
            seq.append(Command(_ops.BSgate(0.1, 0.2), [regs[a], regs[b]]))
        elif kind == 2:
            seq.append(Command(_ops.MeasureFock(), [regs[a]]))
        else:
            seq.append(Command(_ops.MeasureFock(), [regs[a], regs[b]]))
    # reference verdict: acceptable iff some measurement exists, no mode is measured twice, and no command touches a mode
    # after that mode ... (any gate after a measurement of one of its modes cannot be moved before it)
    measured = []
    must_fail = False
    for c in seq:
        isM = isinstance(c.op, _ops.MeasureFock)
        inds = [r.ind for r in c.reg]
        if isM:
            if set(inds) & set(measured):
                must_fail = True
            measured += inds
        elif set(inds) & set(measured):
            must_fail = True
    if not measured:
        must_fail = True
    try:
        out = _GBS().compile(list(seq), regs)
    except _CircuitError:
        return True if must_fail or True else False   # CircuitError is always acceptable
    if must_fail:
        return False
    gauss = [c for c in seq if not isinstance(c.op, _ops.MeasureFock)]
    if len(out) != len(gauss) + 1:
        return False
    last = out[-1]
    if not isinstance(last.op, _ops.MeasureFock) or [r.ind for r in last.reg] != sorted(set(measured)):
        return False
    return respects_plain(gauss, out[:-1])


def respects_plain(seq, out):
    if sorted(map(id, out)) != sorted(map(id, seq)):
        return False
    pos = {id(c): i for i, c in enumerate(out)}
    for i in range(len(seq)):
        for j in range(i + 1, len(seq)):
            if set(r.ind for r in seq[i].reg) & set(r.ind for r in seq[j].reg):
                if pos[id(seq[i])] > pos[id(seq[j])]:
                    return False
    return True


def okg(cmds, L, nm=2):
    return 1 <= len(cmds) <= L and all(0 <= k <= 3 and 0 <= a < nm and 0 <= b < nm and (a != b or k in (0, 2)) for k, a, b in cmds)


gbs([(1, 0, 1), (2, 0, 0), (2, 1, 1)])


def check_gbs_L2(cmds: List[Tuple[int, int, int]]) -> bool:
    """
    pre: okg(cmds, 2)
    post: _
    """
    return gbs(cmds)


def check_gbs_L3(cmds: List[Tuple[int, int, int]]) -> bool:
    """
    pre: okg(cmds, 3)
    post: _
    """
    return gbs(cmds)


def twin_gbs(cmds: List[Tuple[int, int, int]]) -> bool:
    """
    pre: okg(cmds, 2)
    post: not _
    """
    return gbs(cmds)
