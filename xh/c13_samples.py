"""C13 under CrossHair: sample layout of time-domain programs (reshape_samples / _get_mode_order)"""
from typing import List
import numpy as np
from strawberryfields.tdm.program import reshape_samples, _get_mode_order

reshape_samples({0: [np.array([1.0])], 1: [np.array([2.0])]}, [0], [2], 2)


def single_band(n: int, T: int, shots: int, vals: List[int]) -> bool:
    """one band of n concurrent modes measuring the leading mode: the k-th measurement (k = shot*T + bin) of the unrolled
    program acts on physical mode k mod n; entry (shot, bin) of the result must be its outcome"""
    raw = {}
    for k, v in enumerate(vals):
        raw.setdefault(k % n, []).append(np.array([float(v)]))
    out = reshape_samples(raw, [0], [n], T)
    if list(out.keys()) != [0] or out[0].shape != (shots, T):
        return False
    return all(out[0][s][t] == float(vals[s * T + t]) for s in range(shots) for t in range(T))


def check_reshape_single_band(n: int, T: int, shots: int) -> bool:
    """
    the sample values are distinct tokens (the function only moves them); the shape parameters are symbolic
    pre: 1 <= n <= 4 and 1 <= T <= 4 and 1 <= shots <= 3
    post: _
    """
    return single_band(n, T, shots, list(range(100, 100 + shots * T)))


def two_bands(n1: int, n2: int, T: int, shots: int, vals: List[int]) -> bool:
    """two bands measuring their leading modes (indices 0 and n1): measurements alternate band 0, band 1 within a bin"""
    raw = {}
    for k in range(shots * T):
        raw.setdefault(k % n1, []).append(np.array([float(vals[2 * k])]))
        raw.setdefault(n1 + (k % n2), []).append(np.array([float(vals[2 * k + 1])]))
    out = reshape_samples(raw, [0, n1], [n1, n2], T)
    if sorted(out.keys()) != [0, n1] or out[0].shape != (shots, T) or out[n1].shape != (shots, T):
        return False
    return all(out[0][s][t] == float(vals[2 * (s * T + t)]) and out[n1][s][t] == float(vals[2 * (s * T + t) + 1])
               for s in range(shots) for t in range(T))


def check_reshape_two_bands(n1: int, n2: int, T: int, shots: int) -> bool:
    """
    pre: 1 <= n1 <= 3 and 1 <= n2 <= 3 and 1 <= T <= 3 and 1 <= shots <= 2
    post: _
    """
    return two_bands(n1, n2, T, shots, list(range(100, 100 + 2 * shots * T)))


def check_mode_order(n: int, count: int) -> bool:
    """
    single band, leading mode measured: the i-th value comes from physical mode i mod n
    pre: 1 <= n <= 4 and 0 <= count <= 8
    post: _
    """
    return _get_mode_order(count, [0], [n]) == [i % n for i in range(count)]


def twin_reshape(n: int, T: int, shots: int) -> bool:
    """
    pre: 1 <= n <= 4 and 1 <= T <= 4 and 1 <= shots <= 3
    post: not _
    """
    return single_band(n, T, shots, list(range(100, 100 + shots * T)))
