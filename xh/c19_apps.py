"""C19 under CrossHair: GBS application helpers (pure-Python kernels and small-graph routines)"""
import itertools
from math import factorial as _fact
from typing import List, Tuple
import numpy as np
import networkx as nx
try:
    from crosshair import deep_realize as _real
except Exception:      # plain replay without CrossHair
    def _real(x):
        return x
from strawberryfields.apps import similarity, clique, subgraph, sample as sample_mod

PARTITIONS = [1, 1, 2, 3, 5, 7, 11, 15, 22, 30, 42]
_PICK = [0]


def _choice(a, size=None, replace=True, p=None):
    """np.random.choice replaced by an arbitrary (symbolic) index"""
    if isinstance(a, (int, np.integer)):
        return _PICK[0] % int(a)
    a = list(a)
    return a[_PICK[0] % len(a)]


np.random.choice = _choice
np.random.shuffle = lambda x: None

# warm-up (networkx lazy dispatch)
_g = nx.Graph([(0, 1), (1, 2)])
clique.grow([0], _g)
clique.shrink([0, 1, 2], _g)
clique.swap([0], _g)
clique.c_0([0], _g), clique.c_1([0, 1], _g)
list(similarity.orbits(4))


def check_orbits(n: int) -> bool:
    """
    pre: 1 <= n <= 8
    post: _
    """
    out = list(similarity.orbits(n))
    if len(out) != PARTITIONS[n]:
        return False
    seen = set()
    for o in out:
        if sum(o) != n or any(x <= 0 for x in o) or o != sorted(o, reverse=True) or tuple(o) in seen:
            return False
        seen.add(tuple(o))
    return True


def check_sample_orbit_event(s: List[int], maxc: int) -> bool:
    """
    pre: 1 <= len(s) <= 4 and all(0 <= x <= 3 for x in s) and 0 <= maxc <= 3
    post: _
    """
    orb = similarity.sample_to_orbit(list(s))
    if sorted(orb, reverse=True) != orb or 0 in orb or sorted(orb) != sorted(x for x in s if x):
        return False
    ev = similarity.sample_to_event(list(s), maxc)
    if max(s) <= maxc:
        if ev != sum(s):
            return False
    elif ev is not None:
        return False
    # a sample generated from the orbit lies in the orbit again
    back = similarity.orbit_to_sample(list(orb), len(s))
    return similarity.sample_to_orbit(back) == orb and len(back) == len(s)


def _multinomial(sample):
    from collections import Counter
    r = _fact(len(sample))
    for c in Counter(sample).values():
        r //= _fact(c)
    return r


def check_orbit_cardinality(s: List[int], extra: int) -> bool:
    """
    the number of distinct permutations of the padded orbit (exact integer multinomial)
    pre: 1 <= len(s) <= 4 and all(0 <= x <= 3 for x in s) and sum(s) > 0 and 0 <= extra <= 8
    post: _
    """
    # scipy's factorial is a C boundary: hand it concrete integers (CrossHair then enumerates the bounded domain)
    s, extra = _real(s), _real(extra)
    orb = similarity.sample_to_orbit(list(s))
    modes = len(s) + extra
    return similarity.orbit_cardinality(list(orb), modes) == _multinomial(orb + [0] * (modes - len(orb)))


def check_event_cardinality(k: int, nmax: int, modes: int) -> bool:
    """
    pre: 1 <= k <= 5 and 1 <= nmax <= 5 and 1 <= modes <= 4
    post: _
    """
    k, nmax, modes = _real(k), _real(nmax), _real(modes)
    brute = sum(1 for t in itertools.product(range(nmax + 1), repeat=modes) if sum(t) == k)
    return similarity.event_cardinality(k, nmax, modes) == brute


def _graph(e: List[bool]):
    e = _real(e)
    g = nx.Graph()
    g.add_nodes_from(range(4))
    for bit, (i, j) in zip(e, itertools.combinations(range(4), 2)):
        if bit:
            g.add_edge(i, j)
    return g


def _is_clique(nodes, g):
    return all(g.has_edge(a, b) for a, b in itertools.combinations(nodes, 2))


def check_c0_c1(e: List[bool], c: List[bool]) -> bool:
    """
    pre: len(e) == 6 and len(c) == 4
    post: _
    """
    g = _graph(e)
    cl = [i for i in range(4) if _real(c[i])]
    if not _is_clique(cl, g):
        return True
    c0 = sorted(clique.c_0(cl, g))
    ref0 = [i for i in range(4) if i not in cl and all(g.has_edge(i, j) for j in cl)]
    c1 = sorted(clique.c_1(cl, g))
    ref1 = sorted((j, i) for i in range(4) if i not in cl for j in cl
                  if all(g.has_edge(i, k) for k in cl if k != j) and not g.has_edge(i, j))
    return c0 == ref0 and c1 == ref1


def check_grow_swap(e: List[bool], c: List[bool], pick: int, mode: int) -> bool:
    """
    grow and swap return cliques of the input graph that contain / differ by one node from the seed
    pre: len(e) == 6 and len(c) == 4 and 0 <= pick <= 3 and 0 <= mode <= 1
    post: _
    """
    g = _graph(e)
    cl = [i for i in range(4) if _real(c[i])]
    if not _is_clique(cl, g):
        return True
    _PICK[0] = _real(pick)
    sel = ["uniform", "degree"][mode]
    out = clique.grow(list(cl), g, node_select=sel)
    if not (_is_clique(out, g) and set(cl) <= set(out) and out == sorted(out)):
        return False
    # maximal: nothing more can be added
    if any(all(g.has_edge(i, j) for j in out) for i in range(4) if i not in out):
        return False
    sw = clique.swap(list(cl), g, node_select=sel)
    return _is_clique(sw, g) and len(sw) == len(cl) and len(set(sw) - set(cl)) <= 1


def check_shrink(e: List[bool], c: List[bool], pick: int) -> bool:
    """
    pre: len(e) == 6 and len(c) == 4 and 0 <= pick <= 3
    post: _
    """
    g = _graph(e)
    sub = [i for i in range(4) if _real(c[i])]
    _PICK[0] = _real(pick)
    out = clique.shrink(list(sub), g)
    return _is_clique(out, g) and set(out) <= set(sub)


def check_shrink_weight_rule(e: List[bool], w: List[int], pick: int) -> bool:
    """
    documented rule: remove a node of minimal degree (within the subgraph); with node weights, among those one of
    minimal weight.  Checked on the first removal from the full 4-node graph.
    pre: len(e) == 6 and len(w) == 4 and all(0 <= x <= 2 for x in w) and 0 <= pick <= 3
    post: _
    """
    g = _graph(e)
    w = _real(w)
    sub = [0, 1, 2, 3]
    if _is_clique(sub, g):
        return True
    _PICK[0] = _real(pick)
    removed = []
    orig = nx.Graph.remove_node

    def spy(self, n):
        removed.append(n)
        return orig(self, n)
    nx.Graph.remove_node = spy
    try:
        out = clique.shrink(list(sub), g, node_select=[float(x) for x in w])
    finally:
        nx.Graph.remove_node = orig
    if not removed:
        return False
    first = removed[0]
    degs = {n: g.degree(n) for n in sub}
    dmin = min(degs.values())
    cands = [n for n in sub if degs[n] == dmin]
    wmin = min(w[n] for n in cands)
    return first in cands and w[first] == wmin and _is_clique(out, g)


def check_resize_density(e: List[bool], c: List[bool], pick: int) -> bool:
    """
    subgraph.resize returns, for every requested size, a node subset of that size that contains / is contained in the
    seed as documented
    pre: len(e) == 6 and len(c) == 4 and 0 <= pick <= 3 and sum(1 for x in c if x) >= 2
    post: _
    """
    g = _graph(e)
    sub = [i for i in range(4) if _real(c[i])]
    _PICK[0] = _real(pick)
    res = subgraph.resize(list(sub), g, 1, 3)
    for size, nodes in res.items():
        if len(nodes) != size or len(set(nodes)) != size or not set(nodes) <= set(range(4)):
            return False
        if size >= len(sub) and not set(sub) <= set(nodes):
            return False
        if size <= len(sub) and not set(nodes) <= set(sub):
            return False
    return sorted(res.keys()) == [1, 2, 3]


def check_sample_helpers(s: List[List[int]], lo: int, hi: int) -> bool:
    """
    pre: 1 <= len(s) <= 3 and all(1 <= len(x) <= 3 and all(0 <= y <= 2 for y in x) for x in s) and 0 <= lo <= hi <= 4
    post: _
    """
    ps = sample_mod.postselect([list(x) for x in s], lo, hi)
    if ps != [list(x) for x in s if lo <= sum(x) <= hi]:
        return False
    for x in s:
        m = sample_mod.modes_from_counts(list(x))
        ref = [i for i, cnt in enumerate(x) for _ in range(cnt)]
        if m != ref:
            return False
    return True


# ---- reachability twins
def twin_orbits(n: int) -> bool:
    """
    pre: 1 <= n <= 8
    post: not _
    """
    return len(list(similarity.orbits(n))) == PARTITIONS[n]


def twin_grow(e: List[bool], c: List[bool], pick: int) -> bool:
    """
    pre: len(e) == 6 and len(c) == 4 and 0 <= pick <= 3
    post: not _
    """
    g = _graph(e)
    cl = [i for i in range(4) if _real(c[i])]
    if not _is_clique(cl, g):
        return False
    _PICK[0] = _real(pick)
    return _is_clique(clique.grow(list(cl), g), g)


def twin_shrink_rule(e: List[bool], w: List[int], pick: int) -> bool:
    """
    pre: len(e) == 6 and len(w) == 4 and all(0 <= x <= 2 for x in w) and 0 <= pick <= 3
    post: not _
    """
    g = _graph(e)
    if _is_clique([0, 1, 2, 3], g):
        return False
    _PICK[0] = _real(pick)
    return _is_clique(clique.shrink([0, 1, 2, 3], g, node_select=[float(x) for x in w]), g)
